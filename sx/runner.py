"""sx.runner -- concrete replay of kernels on the un-shimmed real code.

usage: /venv/bin/python -m sx.runner <cases.json> <out.json>     (PYTHONPATH=/repo/Lib:/verif)
Each case: {kernel, params, inputs}.  The kernel runs in concrete mode: plain
ints/floats/Fractions/bytes from the solver model, no z3, no shims.
"""
import sys, json, importlib, traceback, os


def load_harness(prop):
    import glob
    here = os.path.dirname(os.path.dirname(os.path.abspath(__file__)))
    for p in sorted(glob.glob(os.path.join(here, 'harness', prop + '_*.py'))):
        name = 'harness.' + os.path.basename(p)[:-3]
        importlib.import_module(name)


def run_case(case):
    from sx import api, conc
    from sx.util import jsonable
    k = api.KERNELS[case['kernel']]
    st = conc.begin(case['inputs'], (not k.exact) if case.get('alt_mode') else k.exact)
    out = dict(obs=[], observed=[], exc=None, vacuous=False, cut=False)
    class _ReplayTimeout(BaseException):
        pass

    def _alarm(signum, frame):
        raise _ReplayTimeout()
    import signal
    try:
        signal.signal(signal.SIGALRM, _alarm)
        signal.alarm(int(os.environ.get('SX_REPLAY_TIMEOUT_S', '60')))
    except Exception:
        pass
    try:
        k.fn(**case['params'])
    except _ReplayTimeout:
        out['exc'] = ['ReplayTimeout', 'concrete replay did not end within the time limit', '']
    except conc.Vacuous:
        out['vacuous'] = True
    except conc.CutPath:
        out['cut'] = True
    except Exception as e:
        out['exc'] = [type(e).__name__, str(e)[:300], traceback.format_exc()[-1500:]]
    try:
        signal.alarm(0)
    except Exception:
        pass
    out['obs'] = [[l, bool(v)] for l, v in st.obs]
    try:
        out['observed'] = [[n, jsonable(v)] for n, v in st.observed]
    except Exception as e:
        out['observed_error'] = repr(e)
    return out


def main():
    src, dst = sys.argv[1], sys.argv[2]
    from sx import api
    api.use('conc')
    import fontTools
    lib = os.environ.get('SX_REPO_LIB', '/repo/Lib')
    if not os.path.abspath(fontTools.__file__).startswith(os.path.abspath(lib) + os.sep):
        print('runner: fontTools imported from %s, not %s' % (fontTools.__file__, lib), file=sys.stderr)
        sys.exit(3)
    cases = json.load(open(src))
    for prop in sorted({c['kernel'].split('.')[0] for c in cases}):
        load_harness(prop)
    results = []
    for c in cases:
        results.append(run_case(c))
    json.dump(results, open(dst, 'w'))


if __name__ == '__main__':
    main()
