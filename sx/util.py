"""sx.util -- helpers shared by the engine (python3-vt) and the concrete runner (/venv/bin/python); no z3"""
from fractions import Fraction


def jsonable(v):
    if isinstance(v, Fraction):
        return str(v)
    if isinstance(v, bool) or v is None:
        return v
    if isinstance(v, int):
        return v
    if isinstance(v, complex):
        return [jsonable(v.real), jsonable(v.imag)]
    if isinstance(v, float):
        return str(Fraction(v)) if v == v and v not in (float('inf'), float('-inf')) else repr(v)
    if isinstance(v, (bytes, bytearray)):
        return list(v)
    if isinstance(v, (list, tuple)):
        return [jsonable(x) for x in v]
    if isinstance(v, dict):
        return {str(k): jsonable(x) for k, x in v.items()}
    if isinstance(v, str):
        return v
    if hasattr(v, 'tobytes') and hasattr(v, 'typecode'):
        return list(v)
    return repr(v)




def close(a, b, tol=1e-6):
    """compare an expected (exact, from the solver model) jsonable value with a concretely observed one"""
    if isinstance(a, list) and isinstance(b, list):
        return len(a) == len(b) and all(close(x, y, tol) for x, y in zip(a, b))
    if isinstance(a, dict) and isinstance(b, dict):
        return a.keys() == b.keys() and all(close(a[k], b[k], tol) for k in a)
    if isinstance(a, bool) or isinstance(b, bool):
        return bool(a) == bool(b)
    if isinstance(a, (int, str)) and isinstance(b, (int, str)):
        try:
            fa, fb = Fraction(a), Fraction(b)
        except (ValueError, ZeroDivisionError):
            return a == b
        if fa == fb:
            return True
        if isinstance(a, int) and isinstance(b, int):
            return False
        return abs(fa - fb) <= tol * max(1, abs(fa), abs(fb))
    return a == b
