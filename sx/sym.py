"""sx.sym -- proxy values over z3 and the path context.

A harness executes the REAL fontTools functions on these proxies.  Every
`bool()` of a symbolic condition is decided by z3 (Ctx.decide) and forks.
Only imported by the engine interpreter (python3-vt, has z3).
"""
import sys, time, ast as _ast, math as _math
from fractions import Fraction
import z3

W = 64
_INF = float('inf')
LIM = 1 << 62
SENTINEL = 0xDEADBEEF
import os as _os
SLOW_S = float(_os.environ.get('SX_SLOW_S', '1e9'))


class Control(BaseException):
    """engine control flow; BaseException so `except Exception` in real code does not swallow it"""


class OutOfModel(Control):
    pass


class Infeasible(Control):
    """path condition became unsatisfiable (assume(False))"""


class Ctx:
    cur = None

    def __init__(self, prefix, vals, opts):
        self.prefix = prefix
        self.decisions = []
        self.solver = z3.Solver()
        self.opts = opts
        if opts.get('rlimit'):
            self.solver.set('rlimit', int(opts['rlimit']))
        self.solver.set('timeout', int(opts.get('timeout_ms', 120000)))
        if opts.get('seed') is not None:
            self.solver.set('random_seed', int(opts['seed']) & 0x7FFFFFFF)
        self.pending = []          # (prefix, vals) alternatives discovered on this path
        self.vals = dict(vals)     # decision index -> concretised value chosen there
        self.nq = 0
        self.nretry = 0
        self.msolver = self.solver
        self.t = 0.0
        self.ndec = 0              # solver-decided (non-forced) branch decisions
        self.inputs = {}           # name -> proxy (for counterexamples)
        self.obs = []              # obligations (label, cond)
        self.observed = []         # (name, value)
        self.hashes = 0
        self.collide = bool(opts.get('collide'))
        self.conc_cap = int(opts.get('conc_cap', 64))
        self.assumes = 0
        self.cuts = 0

    def check(self, *extra):
        """decide satisfiability of path condition (+ extra).  The incremental solver gets a short budget first; on `unknown`
        the query is re-decided from scratch (fresh solver, other seeds / tactic) with the long budget.  Still `unknown` after
        that is reported as inconclusive by the caller -- never as success."""
        t = time.time()
        self.nq += 1
        self.msolver = self.solver
        first_ms = int(self.opts.get('first_timeout_ms', 8000))
        self.solver.set('timeout', first_ms)
        r = str(self.solver.check(*extra))
        if r == 'unknown':
            long_ms = int(self.opts.get('timeout_ms', 120000))
            for attempt in range(3):
                self.nretry += 1
                if attempt == 1:
                    s2 = z3.Then('simplify', 'solve-eqs', 'qfnra-nlsat').solver() if self.opts.get('nra', True) else z3.Solver()
                else:
                    s2 = z3.Solver()
                s2.set('timeout', long_ms)
                if attempt != 1:
                    s2.set('random_seed', 17 * attempt + 3)
                s2.add(self.solver.assertions())
                s2.add(*extra)
                try:
                    r = str(s2.check())
                except z3.Z3Exception:
                    r = 'unknown'
                if r != 'unknown':
                    self.msolver = s2
                    break
        dt = time.time() - t
        self.t += dt
        if dt > SLOW_S:
            sys.stderr.write('[sx slow query %.1fs -> %s, %d decisions]\n' % (dt, r, len(self.decisions)))
        return r

    def model(self):
        return self.msolver.model()

    def add(self, *conds):
        self.solver.add(*conds)

    def decide(self, cond):
        cond = z3.simplify(cond)
        if z3.is_true(cond):
            return True
        if z3.is_false(cond):
            return False
        pos = len(self.decisions)
        if pos < len(self.prefix):
            d = self.prefix[pos]
        else:
            rt = self.check(cond)
            if rt == 'unknown':
                raise OutOfModel('solver unknown at branch')
            if rt == 'unsat':
                d = False
            else:
                rf = self.check(z3.Not(cond))
                if rf == 'unknown':
                    raise OutOfModel('solver unknown at branch')
                d = True
                if rf == 'sat':
                    self.ndec += 1
                    self.pending.append((self.decisions + [False], dict(self.vals)))
        self.decisions.append(d)
        self.solver.add(cond if d else z3.Not(cond))
        return d

    def concretise(self, e, what='value'):
        """lazy enumeration of the values of term e (BV or Int sort)"""
        if in_message_context():
            return SENTINEL
        e = z3.simplify(e)
        if z3.is_bv_value(e):
            return e.as_signed_long()
        if z3.is_int_value(e):
            return e.as_long()
        for _ in range(self.conc_cap):
            pos = len(self.decisions)
            if pos < len(self.prefix) and pos in self.vals:
                v = self.vals[pos]
            else:
                if self.check() != 'sat':
                    raise OutOfModel('concretise: path infeasible/unknown')
                mv = self.model().eval(e, model_completion=True)
                v = mv.as_signed_long() if z3.is_bv_value(mv) else mv.as_long()
                self.vals[pos] = v
            if self.decide(e == v):
                return v
        raise OutOfModel('concretise: more than %d values for %s' % (self.conc_cap, what))


def ctx():
    c = Ctx.cur
    if c is None:
        raise RuntimeError('no active symbolic context')
    return c


# ----------------------------------------------------------------------------
# message context: proxies formatted inside raise/assert/log statements
_stmt_cache = {}


def _stmts(filename):
    if filename not in _stmt_cache:
        try:
            tree = _ast.parse(open(filename).read())
            _stmt_cache[filename] = [n for n in _ast.walk(tree) if isinstance(n, _ast.stmt)]
        except Exception:
            _stmt_cache[filename] = []
    return _stmt_cache[filename]


_LOGNAMES = ('log', 'warnings', 'logger', 'logging')


def in_message_context():
    f = sys._getframe(1)
    while f is not None and '/fontTools/' not in f.f_code.co_filename:
        f = f.f_back
    if f is None:
        return False
    best = None
    for n in _stmts(f.f_code.co_filename):
        if n.lineno <= f.f_lineno <= getattr(n, 'end_lineno', n.lineno):
            if best is None or (n.end_lineno - n.lineno) <= (best.end_lineno - best.lineno):
                best = n
    if isinstance(best, _ast.Raise):
        return True
    if isinstance(best, _ast.Assert):
        return True
    if isinstance(best, _ast.Expr) and isinstance(best.value, _ast.Call):
        fn = best.value.func
        while isinstance(fn, _ast.Attribute):
            fn = fn.value
        if isinstance(fn, _ast.Name) and fn.id in _LOGNAMES:
            return True
    return False


# ----------------------------------------------------------------------------
class SBool:
    __slots__ = ('e',)

    def __init__(self, e):
        self.e = e

    def __bool__(self):
        return ctx().decide(self.e)

    def __and__(self, o):
        return SBool(z3.And(self.e, bexpr(o)))
    __rand__ = __and__

    def __or__(self, o):
        return SBool(z3.Or(self.e, bexpr(o)))
    __ror__ = __or__

    def __invert__(self):
        return SBool(z3.Not(self.e))

    def __eq__(self, o):
        return SBool(self.e == bexpr(o))

    def __ne__(self, o):
        return SBool(self.e != bexpr(o))

    def __hash__(self):
        raise OutOfModel('hash of symbolic bool')

    def __int__(self):
        return 1 if bool(self) else 0
    __index__ = __int__

    def __repr__(self):
        return 'SBool(%s)' % z3.simplify(self.e)


def bexpr(o):
    if isinstance(o, SBool):
        return o.e
    if isinstance(o, z3.BoolRef):
        return o
    if isinstance(o, (SInt, SReal)):
        return o.e != 0
    return z3.BoolVal(bool(o))


def _frac_of_float(x):
    f = Fraction(x)
    g = f.limit_denominator(1 << 20)
    if float(g) == x:
        f = g
    return f


def rexpr(x):
    """z3 Real term of a numeric-like value, or None"""
    if isinstance(x, SReal):
        return x.e
    if isinstance(x, SInt):
        return x.as_real_expr()
    if isinstance(x, bool):
        x = int(x)
    if isinstance(x, int):
        return z3.RealVal(x)
    if isinstance(x, float):
        if x != x or x in (float('inf'), float('-inf')):
            raise OutOfModel('non-finite float constant')
        f = _frac_of_float(x)
        return z3.Q(f.numerator, f.denominator)
    if isinstance(x, Fraction):
        return z3.Q(x.numerator, x.denominator)
    if isinstance(x, SBool):
        return z3.If(x.e, z3.RealVal(1), z3.RealVal(0))
    return None


def _ival_mul(a, b, c, d):
    p = [a * c, a * d, b * c, b * d]
    return min(p), max(p)


class SInt:
    """Python int stand-in.  e is a 64-bit BV (with tracked interval) or a z3 Int."""
    __slots__ = ('e', 'lo', 'hi', 'bv', 'prov')

    def __init__(self, e, lo=None, hi=None):
        self.prov = None
        self.bv = z3.is_bv(e)
        if self.bv:
            if lo is None or hi is None or lo < -LIM or hi > LIM:
                raise OutOfModel('BV int interval exceeds 63 bits')
        self.e = e
        self.lo = lo
        self.hi = hi

    # -- construction
    @staticmethod
    def var(name, lo, hi, bv=True):
        c = ctx()
        if bv:
            v = z3.BitVec(name, W)
            c.add(v >= lo, v <= hi)
        else:
            v = z3.Int(name)
            if lo is not None:
                c.add(v >= lo)
            if hi is not None:
                c.add(v <= hi)
        r = SInt(v, lo, hi)
        c.inputs[name] = r
        return r

    @staticmethod
    def of(x, like=None):
        if isinstance(x, SInt):
            return x
        if isinstance(x, SBool):
            return SInt(z3.If(x.e, z3.BitVecVal(1, W), z3.BitVecVal(0, W)), 0, 1)
        if isinstance(x, bool):
            x = int(x)
        if isinstance(x, int):
            if like is not None and not like.bv:
                return SInt(z3.IntVal(x), x, x)
            if not -LIM <= x <= LIM:
                if like is None:
                    return SInt(z3.IntVal(x), x, x)
                raise OutOfModel('int constant exceeds 63 bits')
            return SInt(z3.BitVecVal(x, W), x, x)
        return None

    def to_int_sort(self):
        if not self.bv:
            return self
        return SInt(z3.BV2Int(self.e, True), self.lo, self.hi)

    def to_bv(self, lo, hi):
        """Int-sorted value known (by the caller's range check) to lie in [lo, hi] -> BV"""
        if self.bv:
            return self
        return SInt(z3.Int2BV(self.e, W) if lo >= 0 else z3.Int2BV(self.e, W), lo, hi)

    def as_real_expr(self):
        return z3.ToReal(self.to_int_sort().e)

    @staticmethod
    def _unify(a, b):
        if a.bv == b.bv:
            return a, b
        return a.to_int_sort(), b.to_int_sort()

    def _bin(self, o, f, fi):
        if isinstance(o, (float, Fraction, SReal)):
            return NotImplemented
        o = SInt.of(o, self)
        if o is None:
            return NotImplemented
        a, b = SInt._unify(self, o)
        if a.lo is None or a.hi is None or b.lo is None or b.hi is None:
            lo = hi = None
        else:
            lo, hi = fi(a.lo, a.hi, b.lo, b.hi)
        if a.bv and (lo < -LIM or hi > LIM):
            a, b = a.to_int_sort(), b.to_int_sort()
        return SInt(f(a.e, b.e), lo, hi)

    # -- arithmetic
    def __add__(s, o):
        r = s._bin(o, lambda a, b: a + b, lambda a, b, c, d: (a + c, b + d))
        return SReal.of_int(s).__add__(o) if r is NotImplemented and rexpr(o) is not None else r
    __radd__ = __add__

    def __sub__(s, o):
        r = s._bin(o, lambda a, b: a - b, lambda a, b, c, d: (a - d, b - c))
        return SReal.of_int(s).__sub__(o) if r is NotImplemented and rexpr(o) is not None else r

    def __rsub__(s, o):
        oo = SInt.of(o, s)
        if oo is None:
            return SReal(s.as_real_expr()).__rsub__(o) if rexpr(o) is not None else NotImplemented
        return oo.__sub__(s)

    def __neg__(s):
        return SInt(-s.e, None if s.hi is None else -s.hi, None if s.lo is None else -s.lo)

    def __pos__(s):
        return s

    def __abs__(s):
        lo = hi = None
        if s.lo is not None and s.hi is not None:
            hi = max(abs(s.lo), abs(s.hi))
            lo = 0 if s.lo <= 0 <= s.hi else min(abs(s.lo), abs(s.hi))
        return SInt(z3.If(s.e >= 0, s.e, -s.e), lo, hi)

    def __mul__(s, o):
        r = s._bin(o, lambda a, b: a * b, _ival_mul)
        return SReal(s.as_real_expr()).__mul__(o) if r is NotImplemented and rexpr(o) is not None else r
    __rmul__ = __mul__

    def __truediv__(s, o):
        return SReal(s.as_real_expr()).__truediv__(o)

    def __rtruediv__(s, o):
        return SReal(s.as_real_expr()).__rtruediv__(o)

    def _cidx(s, o, what):
        if isinstance(o, SInt):
            return ctx().concretise(o.e, what)
        return o

    def __lshift__(s, o):
        o = s._cidx(o, 'shift')
        if o < 0:
            raise ValueError('negative shift count')
        return s * (1 << o)

    def __rlshift__(s, o):
        return SInt.of(o, s) << ctx().concretise(s.e, 'shift')

    def __rshift__(s, o):
        o = s._cidx(o, 'shift')
        if o < 0:
            raise ValueError('negative shift count')
        lo = None if s.lo is None else s.lo >> o
        hi = None if s.hi is None else s.hi >> o
        if s.bv:
            return SInt(s.e >> o, lo, hi)      # arithmetic shift on BitVecRef
        return SInt(s.e / z3.IntVal(1 << o), lo, hi)   # z3 int div by positive = floor

    def __rrshift__(s, o):
        return SInt.of(o, s) >> ctx().concretise(s.e, 'shift')

    def _divmod(s, o):
        o = SInt.of(o, s)
        if o is None:
            return None
        a, b = SInt._unify(s, o)
        be = z3.simplify(b.e)
        if not (z3.is_bv_value(be) or z3.is_int_value(be)):
            if bool(SBool(b.e == 0)):
                raise ZeroDivisionError('integer division or modulo by zero')
            # symbolic divisor: fork on sign
            if a.bv:
                a, b = a.to_int_sort(), b.to_int_sort()
            pos = bool(SBool(b.e > 0))
            q = a.e / b.e if pos else (-a.e) / (-b.e)   # z3 div: a = b*q + r, 0<=r<|b|; for b>0 floor
            if not pos:
                # python floor division with negative divisor: floor(a/b) == floor(-a / -b)
                pass
            r = a.e - q * b.e
            return SInt(q, None, None), SInt(r, None, None)
        d = be.as_signed_long() if z3.is_bv_value(be) else be.as_long()
        if d == 0:
            raise ZeroDivisionError('integer division or modulo by zero')
        if d < 0:
            q, r = (-s)._divmod(-d)
            return q, -r
        if a.bv:
            if d & (d - 1) == 0:
                k = d.bit_length() - 1
                q = SInt(a.e >> k, a.lo >> k, a.hi >> k)
                r = SInt(a.e & (d - 1), 0, d - 1)
                return q, r
            qt = a.e / b.e                      # signed, truncating
            rt = a.e - qt * b.e
            adj = z3.And(rt != 0, a.e < 0)
            q = z3.If(adj, qt - 1, qt)
            r = z3.If(adj, rt + b.e, rt)
            return SInt(q, a.lo // d, a.hi // d), SInt(r, 0, d - 1)
        q = a.e / b.e
        r = a.e % b.e
        return (SInt(q, None if a.lo is None else a.lo // d, None if a.hi is None else a.hi // d),
                SInt(r, 0, d - 1))

    def __floordiv__(s, o):
        if isinstance(o, (float, Fraction, SReal)):
            return SReal(s.as_real_expr()).__floordiv__(o)
        r = s._divmod(o)
        return NotImplemented if r is None else r[0]

    def __rfloordiv__(s, o):
        return SInt.of(o, s).__floordiv__(s)

    def __mod__(s, o):
        r = s._divmod(o)
        return NotImplemented if r is None else r[1]

    def __rmod__(s, o):
        return SInt.of(o, s).__mod__(s)

    def __divmod__(s, o):
        r = s._divmod(o)
        return NotImplemented if r is None else r

    def __pow__(s, o):
        if isinstance(o, int) and 0 <= o <= 4:
            r = SInt.of(1, s)
            for _ in range(o):
                r = r * s
            return r
        raise OutOfModel('pow')

    # -- bit operations
    def _need_bv(s, o):
        o = SInt.of(o, s)
        if o is None:
            return None, None
        if s.bv and o.bv:
            return s, o
        return None, o

    def __and__(s, o):
        oo = SInt.of(o, s)
        if oo is None:
            return NotImplemented
        if s.bv and oo.bv:
            if oo.lo >= 0:
                lo, hi = 0, oo.hi
            elif s.lo >= 0:
                lo, hi = 0, s.hi
            else:
                lo, hi = -LIM, LIM
            return SInt(s.e & oo.e, lo, hi)
        # Int sort: only masks 2^k-1
        for a, b in ((s, oo), (oo, s)):
            be = z3.simplify(b.e)
            if z3.is_int_value(be) or z3.is_bv_value(be):
                m = be.as_long() if z3.is_int_value(be) else be.as_signed_long()
                if m >= 0 and (m + 1) & m == 0:
                    return a.to_int_sort() % (m + 1)
        raise OutOfModel('& on unbounded ints')
    __rand__ = __and__

    def _orxor(s, o, f):
        oo = SInt.of(o, s)
        if oo is None:
            return NotImplemented
        if not (s.bv and oo.bv):
            raise OutOfModel('|/^ on unbounded ints')
        if s.lo >= 0 and oo.lo >= 0:
            n = max(s.hi.bit_length(), oo.hi.bit_length())
            lo, hi = 0, (1 << n) - 1
        else:
            n = max(abs(s.lo).bit_length(), abs(s.hi).bit_length(), abs(oo.lo).bit_length(), abs(oo.hi).bit_length()) + 1
            lo, hi = -(1 << n), (1 << n)
        return SInt(f(s.e, oo.e), lo, hi)

    def __or__(s, o):
        return s._orxor(o, lambda a, b: a | b)
    __ror__ = __or__

    def __xor__(s, o):
        return s._orxor(o, lambda a, b: a ^ b)
    __rxor__ = __xor__

    def __invert__(s):
        return SInt(~s.e if s.bv else -s.e - 1, None if s.hi is None else -s.hi - 1, None if s.lo is None else -s.lo - 1)

    # -- comparisons
    def _cmp(s, o, f):
        if isinstance(o, float) and o in (_INF, -_INF):
            return SBool(z3.BoolVal(bool(f(0.0, o))))
        if isinstance(o, (float, Fraction, SReal)):
            return SBool(f(s.as_real_expr(), rexpr(o)))
        oo = SInt.of(o, s)
        if oo is None:
            return NotImplemented
        a, b = SInt._unify(s, oo)
        return SBool(f(a.e, b.e))

    def __lt__(s, o):
        return s._cmp(o, lambda a, b: a < b)

    def __le__(s, o):
        return s._cmp(o, lambda a, b: a <= b)

    def __gt__(s, o):
        return s._cmp(o, lambda a, b: a > b)

    def __ge__(s, o):
        return s._cmp(o, lambda a, b: a >= b)

    def __eq__(s, o):
        r = s._cmp(o, lambda a, b: a == b)
        return False if r is NotImplemented else r

    def __ne__(s, o):
        r = s._cmp(o, lambda a, b: a != b)
        return True if r is NotImplemented else r

    def __bool__(s):
        return bool(SBool(s.e != 0))

    def __hash__(s):
        c = ctx()
        if c.collide:
            c.hashes += 1
            d = _determined_value(c, s.e)
            return 0x5A5A if d is None else hash(d)
        e = z3.simplify(s.e)
        if z3.is_bv_value(e):
            return hash(e.as_signed_long())
        if z3.is_int_value(e):
            return hash(e.as_long())
        raise OutOfModel('hash of symbolic int')

    def __index__(s):
        return ctx().concretise(s.e, 'index')
    __int__ = __index__

    def __float__(s):
        raise OutOfModel('float() of symbolic int reached a C boundary')

    def __round__(s, n=None):
        return s

    def __floor__(s):
        return s

    def __ceil__(s):
        return s

    def __trunc__(s):
        return s

    def bit_length(s):
        a = abs(s)
        if s.lo is None or s.hi is None:
            # unbounded (Int-sorted) value: decide |x| < 2^40 on this path, give up beyond
            if not bool(SBool(a.e < (1 << 40))):
                raise OutOfModel('bit_length of an int above 2^40')
            top = 40
        else:
            top = max(abs(s.lo), abs(s.hi)).bit_length()
        if top > 64:
            raise OutOfModel('bit_length above 64 bits')
        mk = (lambda v: z3.BitVecVal(v, W)) if a.bv else (lambda v: z3.IntVal(v))
        e = mk(0)
        for k in range(top, 0, -1):          # smallest k with a < 2^k
            e = z3.If(a.e >= mk(1 << (k - 1)), mk(k), e) if k == top else z3.If(z3.And(a.e >= mk(1 << (k - 1)), a.e < mk(1 << k)), mk(k), e)
        return SInt(e, 0, top)

    def __format__(s, spec):
        if in_message_context():
            return '<sym>'
        return format(ctx().concretise(s.e, 'format'), spec)

    def __str__(s):
        if in_message_context():
            return '<sym>'
        return str(ctx().concretise(s.e, 'str'))

    def __repr__(s):
        return 'SInt(%s)' % z3.simplify(s.e)

    @property
    def real(s):
        return s

    @property
    def imag(s):
        return 0


class SReal:
    """Python float / Fraction stand-in over exact reals (modelling rule R-float).
    lin = (SInt base, Fraction offset) when the value is known to be base + offset: floor/round/trunc of such a value
    are computed on the integer side, so ints that pass through float code (otRound(x), array('d')) keep their sort."""
    __slots__ = ('e', 'lin')

    def __init__(self, e, lin=None):
        self.e = e
        self.lin = lin

    @staticmethod
    def of_int(x, off=0):
        off = Fraction(off)
        e = x.as_real_expr()
        if off != 0:
            e = e + z3.Q(off.numerator, off.denominator)
        return SReal(e, (x, off))

    def _int_from_lin(s, f):
        """f: Fraction -> int (floor / ceil / ...) applied to the offset; valid when f(base + off) == base + f(off)"""
        base, off = s.lin
        k = f(off)
        return base + k if k else base

    @staticmethod
    def var(name, lo=None, hi=None):
        c = ctx()
        v = z3.Real(name)
        if lo is not None:
            c.add(v >= rexpr(lo))
        if hi is not None:
            c.add(v <= rexpr(hi))
        r = SReal(v)
        c.inputs[name] = r
        return r

    def _bin(s, o, f):
        o = rexpr(o)
        if o is None:
            return NotImplemented
        return SReal(f(s.e, o))

    def __add__(s, o):
        r = s._bin(o, lambda a, b: a + b)
        if s.lin is not None and isinstance(o, (int, float, Fraction)) and not isinstance(o, bool) and r is not NotImplemented:
            try:
                r.lin = (s.lin[0], s.lin[1] + _frac_of_float(o) if isinstance(o, float) else s.lin[1] + o)
            except (ValueError, OverflowError):
                pass
        return r
    __radd__ = __add__

    def __sub__(s, o):
        r = s._bin(o, lambda a, b: a - b)
        if s.lin is not None and isinstance(o, (int, float, Fraction)) and not isinstance(o, bool) and r is not NotImplemented:
            try:
                r.lin = (s.lin[0], s.lin[1] - (_frac_of_float(o) if isinstance(o, float) else o))
            except (ValueError, OverflowError):
                pass
        return r

    def __rsub__(s, o):
        return s._bin(o, lambda a, b: b - a)

    def __mul__(s, o):
        return s._bin(o, lambda a, b: a * b)
    __rmul__ = __mul__

    def __truediv__(s, o):
        oe = rexpr(o)
        if oe is None:
            return NotImplemented
        if bool(SBool(oe == 0)):
            raise ZeroDivisionError('float division by zero')
        return SReal(s.e / oe)

    def __rtruediv__(s, o):
        oe = rexpr(o)
        if oe is None:
            return NotImplemented
        if bool(SBool(s.e == 0)):
            raise ZeroDivisionError('float division by zero')
        return SReal(oe / s.e)

    def __floordiv__(s, o):
        q = s.__truediv__(o)
        return SReal(z3.ToReal(z3.ToInt(q.e)))

    def __pow__(s, o):
        if isinstance(o, int) and 0 <= o <= 4:
            r = SReal(z3.RealVal(1))
            for _ in range(o):
                r = r * s
            return r
        raise OutOfModel('pow')

    def __neg__(s):
        return SReal(-s.e)

    def __pos__(s):
        return s

    def __abs__(s):
        return SReal(z3.If(s.e >= 0, s.e, -s.e))

    def _cmp(s, o, f):
        if isinstance(o, float) and o in (_INF, -_INF):
            return SBool(z3.BoolVal(bool(f(0.0, o))))
        o = rexpr(o)
        if o is None:
            return NotImplemented
        return SBool(f(s.e, o))

    def __lt__(s, o):
        return s._cmp(o, lambda a, b: a < b)

    def __le__(s, o):
        return s._cmp(o, lambda a, b: a <= b)

    def __gt__(s, o):
        return s._cmp(o, lambda a, b: a > b)

    def __ge__(s, o):
        return s._cmp(o, lambda a, b: a >= b)

    def __eq__(s, o):
        r = s._cmp(o, lambda a, b: a == b)
        return False if r is NotImplemented else r

    def __ne__(s, o):
        r = s._cmp(o, lambda a, b: a != b)
        return True if r is NotImplemented else r

    def __bool__(s):
        return bool(SBool(s.e != 0))

    def __hash__(s):
        c = ctx()
        if c.collide:
            c.hashes += 1
            d = _determined_value(c, s.e)
            return 0x5A5A if d is None else hash(d)
        e = z3.simplify(s.e)
        if z3.is_rational_value(e):
            return hash(Fraction(e.numerator_as_long(), e.denominator_as_long()))
        raise OutOfModel('hash of symbolic real')

    def floor_int(s):
        if s.lin is not None:
            return s._int_from_lin(_math.floor)
        return SInt(z3.ToInt(s.e), None, None)

    def __floor__(s):
        return s.floor_int()

    def __ceil__(s):
        if s.lin is not None:
            return s._int_from_lin(_math.ceil)
        return SInt(-z3.ToInt(-s.e), None, None)

    def __trunc__(s):
        if s.lin is not None and s.lin[1].denominator == 1:
            return s._int_from_lin(int)
        return SInt(z3.If(s.e >= 0, z3.ToInt(s.e), -z3.ToInt(-s.e)), None, None)

    def __round__(s, n=None):
        if n is not None:
            raise OutOfModel('round(x, ndigits)')
        if s.lin is not None and s.lin[1].denominator == 1:
            return s._int_from_lin(int)
        f = z3.ToInt(s.e + z3.Q(1, 2))
        tie = z3.And(z3.ToReal(f) == s.e + z3.Q(1, 2), f % 2 != 0)
        return SInt(z3.If(tie, f - 1, f), None, None)

    def __int__(s):
        raise OutOfModel('int() of symbolic real reached a C boundary (module needs the int shim)')

    def __float__(s):
        raise OutOfModel('float() of symbolic real reached a C boundary')

    def __index__(s):
        raise TypeError('SReal is not an integer')

    def is_integer(s):
        if s.lin is not None and s.lin[1].denominator == 1:
            return True
        if ctx().opts.get('isint_false'):
            # kernel option: `int(x) if x.is_integer() else x` keeps x (same value; the int/float TYPE distinction is outside the
            # model for that kernel) instead of forking two ways per coordinate read
            return False
        return SBool(z3.IsInt(s.e))

    def __format__(s, spec):
        if in_message_context():
            return '<sym>'
        raise OutOfModel('formatting of a symbolic real')

    def __str__(s):
        if in_message_context():
            return '<sym>'
        raise OutOfModel('str of a symbolic real')

    def __repr__(s):
        return 'SReal(%s)' % z3.simplify(s.e)

    @property
    def real(s):
        return s

    @property
    def imag(s):
        return 0


def _determined_value(c, e):
    """collide mode: a key whose value is FORCED by the path condition hashes like that number (so it meets equal concrete keys, e.g. the
    -1.0 / 0.0 / 1.0 entries a dict literal already holds); any other symbolic key hashes to the collide constant"""
    es = z3.simplify(e)
    if z3.is_bv_value(es):
        return es.as_signed_long()
    if z3.is_int_value(es):
        return es.as_long()
    if z3.is_rational_value(es):
        return Fraction(es.numerator_as_long(), es.denominator_as_long())
    if c.check() != 'sat':
        return None
    v = c.model().eval(e, model_completion=True)
    if c.check(e != v) != 'unsat':
        return None
    v = z3.simplify(v)
    if z3.is_bv_value(v):
        return v.as_signed_long()
    if z3.is_int_value(v):
        return v.as_long()
    if z3.is_rational_value(v):
        return Fraction(v.numerator_as_long(), v.denominator_as_long())
    return None


def is_sym(x):
    return isinstance(x, (SInt, SReal, SBool))


def model_value(m, v):
    """concrete python value of proxy v under model m (int / Fraction / bool / containers)"""
    if isinstance(v, SInt):
        r = m.eval(v.e, model_completion=True)
        return r.as_signed_long() if z3.is_bv_value(r) else r.as_long()
    if isinstance(v, SReal):
        r = m.eval(v.e, model_completion=True)
        r = z3.simplify(r)
        if z3.is_rational_value(r):
            return Fraction(r.numerator_as_long(), r.denominator_as_long())
        if z3.is_algebraic_value(r):
            a = r.approx(20)
            return Fraction(a.numerator_as_long(), a.denominator_as_long())
        raise OutOfModel('model value not rational: %s' % r)
    if isinstance(v, SBool):
        return z3.is_true(m.eval(v.e, model_completion=True))
    if isinstance(v, z3.ExprRef):
        r = m.eval(v, model_completion=True)
        if z3.is_bool(r):
            return z3.is_true(r)
        if z3.is_bv_value(r):
            return r.as_signed_long()
        if z3.is_int_value(r):
            return r.as_long()
        r = z3.simplify(r)
        return Fraction(r.numerator_as_long(), r.denominator_as_long())
    if hasattr(v, '_sx_model_value'):
        return v._sx_model_value(m)
    if isinstance(v, (list, tuple)):
        return [model_value(m, x) for x in v]
    if isinstance(v, dict):
        return {str(k): model_value(m, x) for k, x in v.items()}
    if isinstance(v, (bytes, bytearray)):
        return list(v)
    if isinstance(v, float):
        return Fraction(v)
    return v
