"""sx.conc -- concrete-mode implementation of sx.api (no z3, no shims).

Used by the replay runner under /venv/bin/python: the kernel runs on the plain
values of a solver model against the un-shimmed real code.
"""
from fractions import Fraction

STATE = None


class Vacuous(Exception):
    """an assume() is false for these inputs"""


class CutPath(Exception):
    pass


class State:
    def __init__(self, inputs, exact):
        self.inputs = inputs
        self.exact = exact
        self.obs = []
        self.observed = []
        self.tol = 1e-7


def begin(inputs, exact):
    global STATE
    STATE = State(inputs, exact)
    return STATE


def _get(name):
    try:
        return STATE.inputs[name]
    except KeyError:
        raise KeyError('replay input %r missing' % name)


def _num(x):
    if isinstance(x, str):
        f = Fraction(x)
        if STATE.exact:
            return f
        return float(f) if f.denominator != 1 else float(f.numerator)
    return x


def v_int(name, lo, hi, bv=True):
    v = _get(name)
    if isinstance(v, str):
        v = int(Fraction(v))
    return int(v)


def v_real(name, lo, hi):
    v = _get(name)
    if isinstance(v, (int, float)):
        v = str(Fraction(v))
    return _num(v)


def v_bool(name):
    return bool(_get(name))


def v_bytes(name, n):
    return bytes(_get(name))


def v_str(name, n, alphabet):
    v = _get(name)
    if isinstance(v, list):
        v = ''.join(chr(c) for c in v)
    return v


def assume(cond):
    if not cond:
        raise Vacuous()


def ob(label, cond):
    STATE.obs.append((label, bool(cond)))


def observe(name, value):
    STATE.observed.append((name, value))


def _isfloat(x):
    return isinstance(x, float)


def eq(a, b):
    if isinstance(a, (list, tuple)) and isinstance(b, (list, tuple)):
        return len(a) == len(b) and all(eq(x, y) for x, y in zip(a, b))
    if _isfloat(a) or _isfloat(b):
        try:
            d = abs(a - b)
            return d <= STATE.tol * max(1.0, abs(a), abs(b))
        except TypeError:
            return False
    if isinstance(a, (bytes, bytearray)) and isinstance(b, (bytes, bytearray)):
        return bytes(a) == bytes(b)
    if hasattr(a, 'tobytes') and hasattr(b, 'tobytes'):
        return a.tobytes() == b.tobytes()
    return a == b


def be_uint(bs):
    v = 0
    for b in bs:
        v = (v << 8) | int(b)
    return v


def eq_mod32(a, b):
    return (a - b) % (1 << 32) == 0


def conj(xs):
    return all(bool(x) for x in xs)


def disj(xs):
    return any(bool(x) for x in xs)


def neg(a):
    return not a


def ite(c, a, b):
    return a if c else b


def le(a, b):
    if _isfloat(a) or _isfloat(b):
        return a <= b + STATE.tol * max(1.0, abs(a), abs(b))
    return a <= b


def lt(a, b):
    return a < b


def is_int(a):
    if isinstance(a, float):
        return a == int(a)
    if isinstance(a, Fraction):
        return a.denominator == 1
    return isinstance(a, int)


def real_of(x):
    return x


def shim(module, names, explicit):
    return None


def shim_all(module):
    return None


def shim_defaults(fn, names):
    return None


def cut(reason):
    raise CutPath(reason)


def collide(on):
    return None


def sset(name, universe):
    return {u for u in universe if _get('%s[%s]' % (name, u))}


def tobytes(x):
    if hasattr(x, 'tobytes'):
        return x.tobytes()
    return bytes(x)
