"""sx.strings -- symbolic strings of CONCRETE length: a list of characters, each a Python 1-char str or a code-point SInt.

Enough of the str API for the file-name kernels (C19) and tag/identifier codecs: indexing, slicing, iteration, concatenation,
equality (forks), lower() on the ASCII range, split on a concrete separator (forks per character), startswith/endswith,
membership in concrete containers (through the instrumented `in`, see sx.instrument).  Anything else raises OutOfModel.
Alphabet: the harness states it (printable ASCII by default); case mapping of non-ASCII text is outside the model.
"""
import z3
from .sym import SInt, SBool, OutOfModel, ctx, in_message_context, Ctx


def _cp(c):
    """character -> code point (int or SInt)"""
    if isinstance(c, str):
        return ord(c)
    return c


def _ceq(a, b):
    """equality of two characters: bool or z3 Bool"""
    if isinstance(a, str) and isinstance(b, str):
        return a == b
    x, y = _cp(a), _cp(b)
    r = (x == y) if isinstance(x, SInt) else (y == x)
    return r.e if isinstance(r, SBool) else bool(r)


class SStr:
    __slots__ = ('c',)

    def __init__(self, chars=()):
        if isinstance(chars, SStr):
            chars = chars.c
        elif isinstance(chars, str):
            chars = list(chars)
        self.c = list(chars)

    @staticmethod
    def var(name, n, alphabet=None):
        lo, hi = alphabet or (32, 126)
        cs = []
        c = ctx()
        for i in range(n):
            v = SInt.var('%s[%d]' % (name, i), lo, hi)
            del c.inputs['%s[%d]' % (name, i)]
            cs.append(v)
        s = SStr(cs)
        c.inputs[name] = s
        return s

    def concrete(self):
        return all(isinstance(x, str) for x in self.c)

    def __len__(self):
        return len(self.c)

    def __bool__(self):
        return len(self.c) > 0

    def __iter__(self):
        for x in self.c:
            yield x if isinstance(x, str) else SStr([x])

    def __getitem__(self, i):
        if isinstance(i, slice):
            return _norm(SStr(self.c[i]))
        if isinstance(i, SInt):
            i = ctx().concretise(i.e, 'string index')
        x = self.c[i]
        return x if isinstance(x, str) else SStr([x])

    def __add__(self, o):
        if isinstance(o, (str, SStr)):
            return _norm(SStr(self.c + SStr(o).c))
        return NotImplemented

    def __radd__(self, o):
        if isinstance(o, (str, SStr)):
            return _norm(SStr(SStr(o).c + self.c))
        return NotImplemented

    def __mul__(self, n):
        return _norm(SStr(self.c * n))

    def _eq(self, o):
        if not isinstance(o, (str, SStr)):
            return False
        oc = SStr(o).c
        if len(oc) != len(self.c):
            return False
        conds = []
        for a, b in zip(self.c, oc):
            e = _ceq(a, b)
            if e is False:
                return False
            if e is not True:
                conds.append(e)
        if not conds:
            return True
        return SBool(z3.And(*conds))

    def __eq__(self, o):
        return self._eq(o)

    def __ne__(self, o):
        r = self._eq(o)
        return (not r) if isinstance(r, bool) else ~r

    def __hash__(self):
        c = ctx()
        if c.collide:
            # collide mode: every string object hashes alike, equality (a solver fork) decides; faithful when all keys of the
            # container are SStr objects, which _norm guarantees in this mode by not collapsing concrete strings
            c.hashes += 1
            return 0x5A5B
        if self.concrete():
            return hash(''.join(self.c))
        raise OutOfModel('hash of a symbolic string (instrument the membership test)')

    def lower(self):
        out = []
        for x in self.c:
            if isinstance(x, str):
                out.append(x.lower())
            else:
                if x.lo < 0 or x.hi > 127:
                    raise OutOfModel('lower() outside ASCII')
                out.append(SInt(z3.If(z3.And(x.e >= 65, x.e <= 90), x.e + 32, x.e), 0, 127))
        return _norm(SStr(out))

    def upper(self):
        out = []
        for x in self.c:
            if isinstance(x, str):
                out.append(x.upper())
            else:
                if x.lo < 0 or x.hi > 127:
                    raise OutOfModel('upper() outside ASCII')
                out.append(SInt(z3.If(z3.And(x.e >= 97, x.e <= 122), x.e - 32, x.e), 0, 127))
        return _norm(SStr(out))

    def split(self, sep=None, maxsplit=-1):
        if not isinstance(sep, str) or len(sep) != 1 or maxsplit != -1:
            raise OutOfModel('split on other than one concrete character')
        parts = [[]]
        for x in self.c:
            e = _ceq(x, sep)
            hit = e if isinstance(e, bool) else bool(SBool(e))
            if hit:
                parts.append([])
            else:
                parts[-1].append(x)
        return [_norm(SStr(p)) for p in parts]

    def _is_in(self, x, chars):
        if isinstance(x, str):
            return x in chars
        return bool(SBool(z3.Or(*[x.e == ord(c) for c in chars])))

    def lstrip(self, chars=None):
        chars = chars if chars is not None else ' \t\n\r\x0b\x0c'
        i = 0
        while i < len(self.c) and self._is_in(self.c[i], chars):
            i += 1
        return _norm(SStr(self.c[i:]))

    def rstrip(self, chars=None):
        chars = chars if chars is not None else ' \t\n\r\x0b\x0c'
        j = len(self.c)
        while j > 0 and self._is_in(self.c[j - 1], chars):
            j -= 1
        return _norm(SStr(self.c[:j]))

    def strip(self, chars=None):
        r = self.lstrip(chars)
        return r.rstrip(chars) if isinstance(r, SStr) else r.strip(chars)

    def startswith(self, p):
        p = SStr(p)
        if len(p) > len(self.c):
            return False
        return bool(_norm(SStr(self.c[:len(p)]))._eq(p)) if len(p) else True

    def endswith(self, p):
        p = SStr(p)
        if len(p) > len(self.c):
            return False
        return bool(_norm(SStr(self.c[len(self.c) - len(p):]))._eq(p)) if len(p) else True

    def __contains__(self, sub):
        sub = SStr(sub)
        n = len(sub)
        if n == 0:
            return True
        for i in range(len(self.c) - n + 1):
            if bool(_norm(SStr(self.c[i:i + n]))._eq(sub)):
                return True
        return False

    def isdigit(self):
        if not self.c:
            return False
        for x in self.c:
            if isinstance(x, str):
                if not x.isdigit():
                    return False
            elif not bool((x >= 48) & (x <= 57)):
                return False
        return True

    def encode(self, encoding='utf-8', errors='strict'):
        from .shims import SBytes
        out = []
        for x in self.c:
            if isinstance(x, str):
                out.extend(x.encode(encoding, errors))
            else:
                if x.hi > 127:
                    raise OutOfModel('encode() outside ASCII')
                out.append(x)
        return SBytes(out)

    def __str__(self):
        if in_message_context():
            return '<sym>'
        if self.concrete():
            return ''.join(self.c)
        raise OutOfModel('str() of a symbolic string')

    def __repr__(self):
        return 'SStr(%r)' % (self.c,)

    def __format__(self, spec):
        if in_message_context():
            return '<sym>'
        raise OutOfModel('formatting of a symbolic string')

    def _sx_model_value(self, m):
        from .sym import model_value
        return ''.join(x if isinstance(x, str) else chr(model_value(m, x)) for x in self.c)

    def codepoints(self):
        return [_cp(x) for x in self.c]


def _norm(s):
    """collapse to a plain str when nothing symbolic is left"""
    if s.concrete() and not (Ctx.cur is not None and Ctx.cur.collide):
        return ''.join(s.c)
    return s


def sjoin(sep, it):
    out = []
    first = True
    for x in it:
        if not first and sep:
            out.extend(list(sep))
        if isinstance(x, (str, SStr)):
            out.extend(SStr(x).c)
        else:
            raise TypeError('sequence item: expected str instance, %s found' % type(x).__name__)
        first = False
    return _norm(SStr(out))


def sfmt(f, args):
    if isinstance(args, tuple):
        sym = any(isinstance(a, (SStr, SInt)) for a in args)
    else:
        sym = isinstance(args, (SStr, SInt))
    if not sym:
        return f % args
    if in_message_context():
        return '<sym>'
    raise OutOfModel('%-formatting of symbolic values')


def s_in(x, c):
    """x in c, where membership of a symbolic string / character in a concrete container becomes a disjunction of equalities"""
    if isinstance(x, SStr):
        if isinstance(c, (set, frozenset, list, tuple, dict)) or hasattr(c, 'keys'):
            conds = []
            for e in (c.keys() if hasattr(c, 'keys') else c):
                r = x._eq(e) if isinstance(e, (str, SStr)) else False
                if r is True:
                    return True
                if r is not False:
                    conds.append(r.e)
            if not conds:
                return False
            return SBool(z3.Or(*conds))
        if isinstance(c, (str, SStr)):
            return SStr(c).__contains__(x)
        raise OutOfModel('membership of a symbolic string in %s' % type(c).__name__)
    if isinstance(x, str) and isinstance(c, (set, frozenset, list, tuple)) and any(isinstance(e, SStr) for e in c):
        conds = []
        for e in c:
            r = SStr(e)._eq(x) if isinstance(e, SStr) else (e == x)
            if r is True:
                return True
            if r is not False:
                conds.append(r.e)
        return SBool(z3.Or(*conds)) if conds else False
    if isinstance(x, SInt) and isinstance(c, (set, frozenset, list, tuple, range)) and not isinstance(c, range):
        conds = []
        for e in c:
            r = (x == e)
            if isinstance(r, SBool):
                conds.append(r.e)
            elif r:
                return True
        return SBool(z3.Or(*conds)) if conds else False
    return x in c


# ----------------------------------------------------------------------------------------------------------------------------
class _ReShim:
    """the fragment of `re` the tag / identifier helpers use: match() of a pattern made of literal characters and [...] classes, each
    optionally followed by *, with an optional trailing $.  Membership of a symbolic character in a class is a solver fork."""

    @staticmethod
    def _parse(p):
        toks, i, anchored_end = [], 0, False
        while i < len(p):
            c = p[i]
            if c == '[':
                j = p.index(']', i + 1)
                body, neg = p[i + 1:j], False
                if body.startswith('^'):
                    body, neg = body[1:], True
                ranges, k = [], 0
                while k < len(body):
                    if k + 2 < len(body) and body[k + 1] == '-':
                        ranges.append((ord(body[k]), ord(body[k + 2])))
                        k += 3
                    else:
                        ranges.append((ord(body[k]), ord(body[k])))
                        k += 1
                tok, i = (ranges, neg), j + 1
            elif c == '$' and i == len(p) - 1:
                anchored_end, i = True, i + 1
                continue
            elif c in '.()|+?{}\\^':
                raise OutOfModel('regular expression feature %r' % c)
            else:
                tok, i = ([(ord(c), ord(c))], False), i + 1
            q = '1'
            if i < len(p) and p[i] == '*':
                q, i = '*', i + 1
            toks.append((tok, q))
        return toks, anchored_end

    @staticmethod
    def _in(ch, tok):
        ranges, neg = tok
        if isinstance(ch, str):
            r = any(lo <= ord(ch) <= hi for lo, hi in ranges)
        else:
            r = bool(SBool(z3.Or(*[z3.And(ch.e >= lo, ch.e <= hi) for lo, hi in ranges])))
        return (not r) if neg else r

    def match(self, pattern, s, flags=0):
        if flags:
            raise OutOfModel('regular expression flags')
        if isinstance(s, str) and not isinstance(s, SStr):
            import re as _re
            return _re.match(pattern, s)
        toks, end = self._parse(pattern)
        cs = SStr(s).c
        pos = 0
        for tok, q in toks:
            if q == '1':
                if pos >= len(cs) or not self._in(cs[pos], tok):
                    return None
                pos += 1
            else:
                while pos < len(cs) and self._in(cs[pos], tok):      # greedy; the supported patterns never need backtracking
                    pos += 1
        if end and pos != len(cs):
            return None
        return True


re_shim = _ReShim()
