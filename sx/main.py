"""sx.main -- driver: ./check <Cxx> [--tier quick|thorough] [--kernel substr] [--replay file]

exit 0: every obligation of every kernel discharged on every path within the stated bounds
exit 1: a solver counterexample replayed on the real un-shimmed code  (VIOLATION line)
exit 2: inconclusive / harness error (never on the unchanged tree by construction of the bounds)
"""
import sys, os, json, time, glob, importlib, argparse, hashlib, subprocess, tempfile, shutil, random
import multiprocessing as mp
from concurrent.futures import ProcessPoolExecutor, wait, FIRST_COMPLETED

VERIF = os.path.dirname(os.path.dirname(os.path.abspath(__file__)))
REPO_LIB = os.environ.get('SX_REPO_LIB', '/repo/Lib')
REPLAY_PY = os.environ.get('SX_REPLAY_PY', '/venv/bin/python')


def load_harness(prop):
    mods = []
    for p in sorted(glob.glob(os.path.join(VERIF, 'harness', prop + '_*.py'))):
        mods.append(importlib.import_module('harness.' + os.path.basename(p)[:-3]))
    return mods


def _worker_init():
    sys.setrecursionlimit(20000)


def _work(item):
    from . import engine
    kernel_id, params, prefix, vals, opts, budget_paths, budget_s, trace_first = item
    try:
        return engine.explore_subtree(kernel_id, params, prefix, vals, opts, budget_paths, budget_s, trace_first)
    except BaseException as e:
        import traceback
        return dict(kernel=kernel_id, params=params, fatal='%s: %s\n%s' % (type(e).__name__, e, traceback.format_exc()[-2000:]))


def run_runner(cases, jobs=8):
    """run concrete cases under the replay interpreter; returns list of results (same order)"""
    if not cases:
        return []
    tmp = tempfile.mkdtemp(prefix='sxrun')
    try:
        n = max(1, min(jobs, (len(cases) + 19) // 20))
        chunks = [cases[i::n] for i in range(n)]
        procs = []
        env = dict(os.environ)
        env['PYTHONPATH'] = REPO_LIB + os.pathsep + VERIF
        env['PYTHONHASHSEED'] = '0'
        for i, ch in enumerate(chunks):
            src = os.path.join(tmp, 'in%d.json' % i)
            dst = os.path.join(tmp, 'out%d.json' % i)
            json.dump(ch, open(src, 'w'))
            procs.append((subprocess.Popen([REPLAY_PY, '-m', 'sx.runner', src, dst], env=env, cwd=VERIF,
                                           stdout=subprocess.PIPE, stderr=subprocess.STDOUT), dst))
        outs = []
        for p, dst in procs:
            so, _ = p.communicate()
            if p.returncode != 0 or not os.path.exists(dst):
                raise RuntimeError('concrete runner failed (%s): %s' % (p.returncode, so.decode(errors='replace')[-2000:]))
            outs.append(json.load(open(dst)))
        res = [None] * len(cases)
        for i, ch in enumerate(chunks):
            for j, r in enumerate(outs[i]):
                res[i + j * n] = r
        return res
    finally:
        shutil.rmtree(tmp, ignore_errors=True)


def load_known():
    p = os.path.join(VERIF, 'known_findings.json')
    if not os.path.exists(p):
        return []
    return json.load(open(p)).get('findings', [])


def match_known(known, prop, kernel, label, params, inputs):
    from fractions import Fraction
    for f in known:
        if f.get('status') != 'known' or f.get('property') != prop:
            continue
        if f.get('kernel') and f['kernel'] != kernel:
            continue
        if f.get('label') and f['label'] != label:
            continue
        w = f.get('where')
        if w:
            try:
                # names go into the globals of the evaluation so that lambdas / generator expressions in the predicate can see them
                ok = eval(w, dict(__builtins__={}, inputs=inputs, params=params, len=len, abs=abs, all=all, any=any,
                                  Fraction=Fraction, int=int, str=str, bytes=bytes, min=min, max=max))
            except Exception:
                ok = False
            if not ok:
                continue
        return f
    return None


def main(argv=None):
    ap = argparse.ArgumentParser()
    ap.add_argument('prop')
    ap.add_argument('--tier', default=os.environ.get('VERIF_TIER', 'quick'))
    ap.add_argument('--kernel', default=None, help='only kernels whose name contains this')
    ap.add_argument('--replay', default=None)
    ap.add_argument('--jobs', type=int, default=int(os.environ.get('SX_JOBS', '0')) or os.cpu_count() or 4)
    ap.add_argument('--no-evidence', action='store_true')
    ap.add_argument('-v', action='store_true')
    a = ap.parse_args(argv)
    try:
        seed = int(os.environ.get('VERIF_SEED', '0'))
    except ValueError:
        seed = 0
    t0 = time.time()
    sys.path.insert(0, VERIF)

    if a.replay:
        return do_replay(a.replay)

    import logging
    logging.disable(logging.CRITICAL)
    from . import api
    api.use('sym')
    import fontTools
    if not os.path.abspath(fontTools.__file__).startswith(os.path.abspath(REPO_LIB) + os.sep):
        print('HARNESS-ERROR fontTools imported from %s, not from %s' % (fontTools.__file__, REPO_LIB))
        return 2
    try:
        load_harness(a.prop)
    except Exception as e:
        import traceback
        traceback.print_exc()
        print('INCONCLUSIVE property=%s reason=harness import failed: %s: %s' % (a.prop, type(e).__name__, e))
        write_evidence(a, seed, t0, {}, [], ['harness import failed: %r' % e], 0, 0)
        return 2
    kernels = [k for k in api.KERNELS.values() if k.prop == a.prop and (not a.kernel or a.kernel in k.name)]
    if not kernels:
        print('HARNESS-ERROR no kernels for', a.prop)
        return 2
    tasks = []
    for k in kernels:
        plist = k.thorough if a.tier == 'thorough' else k.quick
        for p in plist:
            tasks.append((k.id, p))
    rnd = random.Random(seed)
    order = list(range(len(tasks)))
    rnd.shuffle(order)
    opts = dict(seed=seed, timeout_ms=int(os.environ.get('SX_TIMEOUT_MS', '120000')))

    known = load_known()
    # ---- exploration: dynamic work distribution over a process pool
    agg = {}
    for i, (kid, p) in enumerate(tasks):
        agg[i] = dict(kernel=kid, params=p, paths=0, vacuous=0, transitions=0, queries=0, solver_s=0.0, obligations=0,
                      discharged=0, cex=[], unknown=[], oom=[], labels={}, cuts=0, fidelity=[], samples=[], funcs={},
                      hashes=0, assumes=0, max_decisions=0, fatal=None, cpu_s=0.0, budget_exceeded=False, known_cex=[])
    ctxmp = mp.get_context('fork')
    futs = {}
    fid_cap = 40 if a.tier == 'quick' else 120
    with ProcessPoolExecutor(max_workers=a.jobs, mp_context=ctxmp, initializer=_worker_init) as ex:
        def submit(ti, prefix, vals, trace):
            kid, p = tasks[ti]
            small = len(futs) < 2 * a.jobs
            f = ex.submit(_work, (kid, p, prefix, vals, opts, 6 if small else 40, 4.0 if small else 15.0, trace))
            futs[f] = ti
        for ti in order:
            submit(ti, [], {}, True)
        while futs:
            done, _ = wait(list(futs), return_when=FIRST_COMPLETED)
            for f in done:
                ti = futs.pop(f)
                g = agg[ti]
                try:
                    r = f.result()
                except BaseException as e:
                    r = dict(fatal='worker died: %r' % e)
                if r.get('fatal'):
                    g['fatal'] = r['fatal']
                    continue
                for key in ('paths', 'vacuous', 'transitions', 'queries', 'solver_s', 'obligations', 'discharged', 'cuts',
                            'hashes', 'assumes'):
                    g[key] += r[key]
                g['cpu_s'] += r['wall_s']
                g['max_decisions'] = max(g['max_decisions'], r['max_decisions'])
                for cx in r['cex']:
                    # counterexamples explained by a known finding do not use up the per-task budget (exploration goes on)
                    if match_known(known, a.prop, g['kernel'], cx['label'], g['params'], cx['inputs']):
                        if len(g['known_cex']) < 40:
                            g['known_cex'].append(cx)
                    elif len(g['cex']) < 200:
                        g['cex'].append(cx)
                g['unknown'].extend(r['unknown'][:5])
                g['oom'].extend(r['oom'][:5])
                for l, n in r['labels'].items():
                    g['labels'][l] = g['labels'].get(l, 0) + n
                g['funcs'].update(r['funcs'])
                for fc in r['fidelity']:
                    if len(g['fidelity']) < fid_cap:
                        g['fidelity'].append(fc)
                    else:
                        j = rnd.randrange(g['paths'] + 1)
                        if j < fid_cap:
                            g['fidelity'][j] = fc
                if len(g['samples']) < 2:
                    g['samples'].extend(r['samples'][:2 - len(g['samples'])])
                kopts = api.KERNELS[g['kernel']].opts
                maxp = kopts.get('max_paths', 60000)
                if g['paths'] > maxp:
                    g['budget_exceeded'] = True
                    continue
                if len(g['cex']) >= 5:
                    continue      # enough counterexamples for this task; stop expanding it
                for pfx, vs in r['leftover']:
                    submit(ti, pfx, vs, False)

    # ---- verdicts
    incon = []
    for ti, g in agg.items():
        kid = g['kernel']
        if g['fatal']:
            incon.append('%s %s fatal: %s' % (kid, g['params'], g['fatal'][-600:]))
        if g['budget_exceeded']:
            incon.append('%s %s path budget exceeded (%d paths)' % (kid, g['params'], g['paths']))
        if g['oom']:
            incon.append('%s %s out-of-model on %d path(s): %s' % (kid, g['params'], len(g['oom']), g['oom'][0]))
        if g['unknown']:
            incon.append('%s %s solver unknown on %d obligation(s): %s' % (kid, g['params'], len(g['unknown']), g['unknown'][0]))
        if not g['fatal'] and g['paths'] - len(g['oom']) > 0 and g['obligations'] == 0 and not g['cuts']:
            incon.append('%s %s vacuous: no obligation reached' % (kid, g['params']))
        if not g['fatal'] and g['paths'] == 0:
            incon.append('%s %s vacuous: no feasible path' % (kid, g['params']))
        must = api.KERNELS[kid].opts.get('must_reach', ())
        for l in must:
            if not g['labels'].get(l) and not g['fatal']:
                incon.append('%s %s label %r never reached' % (kid, g['params'], l))

    # ---- concolic fidelity replay + counterexample replay (concrete, un-shimmed, replay interpreter)
    cases = []
    index = []
    for ti, g in agg.items():
        for fc in g['fidelity']:
            cases.append(dict(kernel=g['kernel'], params=g['params'], inputs=fc['inputs']))
            index.append(('fid', ti, fc))
        seen = {}
        for cx in g['known_cex'] + g['cex']:
            # replay up to 3 counterexamples per label that no known finding explains, plus one per known finding
            kf = match_known(known, a.prop, g['kernel'], cx['label'], g['params'], cx['inputs'])
            key = (cx['label'], kf.get('id') if kf else None)
            if seen.get(key, 0) >= (1 if kf else 3):
                continue
            seen[key] = seen.get(key, 0) + 1
            cases.append(dict(kernel=g['kernel'], params=g['params'], inputs=cx['inputs']))
            index.append(('cex', ti, cx))
    try:
        results = run_runner(cases, a.jobs)
    except Exception as e:
        results = None
        incon.append('concrete runner failed: %s' % e)
    from .util import close
    fid_ok = 0
    fid_bad = []
    violations = []
    knownhits = []
    unrepro = []

    def fid_verdict(g, obj, r):
        if r['exc']:
            return 'concrete run raised %s: %s' % (r['exc'][0], r['exc'][1])
        if r['vacuous']:
            return 'concrete run violates an assume()'
        if any(not v for _, v in r['obs']):
            lab = [l for l, v in r['obs'] if not v]
            if not any(cx['label'] in lab for cx in g['cex'] + g['known_cex']):
                return 'obligation(s) %s false in concrete run but discharged symbolically' % lab
            return None
        if r.get('observed_error'):
            return 'observed values not serialisable: ' + r['observed_error']
        exp = obj['observed']
        got = r['observed']
        if len(exp) != len(got) or any(e[0] != o[0] for e, o in zip(exp, got)):
            return 'observation sequence differs: %s vs %s' % ([e[0] for e in exp], [o[0] for o in got])
        for e, o in zip(exp, got):
            if not close(e[1], o[1]):
                return 'observed %s: symbolic %s vs concrete %s' % (e[0], str(e[1])[:200], str(o[1])[:200])
        return None

    def cex_verdict(obj, r):
        label = obj['label']
        if label.startswith('exception:'):
            return bool(r['exc']) and r['exc'][0] == label.split(':', 1)[1]
        if any(l == label and not v for l, v in r['obs']):
            return True
        # the concrete run crashed before reaching the obligation: still a real failure of the kernel on these inputs
        # (a replay that merely ran out of time proves nothing)
        return bool(r['exc']) and r['exc'][0] != 'ReplayTimeout'

    if results is not None:
        # second opinion in the other number mode (floats <-> Fractions) for everything that did not match at first:
        # the library mixes float constants into Fraction arithmetic, and floats can flip a branch exactly at a boundary
        retry = []
        for i, ((kind, ti, obj), r) in enumerate(zip(index, results)):
            g = agg[ti]
            bad = fid_verdict(g, obj, r) if kind == 'fid' else (None if cex_verdict(obj, r) else 'norepro')
            if bad:
                retry.append(i)
        alt = {}
        if retry:
            try:
                altres = run_runner([dict(cases[i], alt_mode=True) for i in retry], a.jobs)
                alt = dict(zip(retry, altres))
            except Exception as e:
                incon.append('concrete runner (second mode) failed: %s' % e)
        for i, ((kind, ti, obj), r) in enumerate(zip(index, results)):
            g = agg[ti]
            if kind == 'fid':
                bad = fid_verdict(g, obj, r)
                if bad and i in alt and fid_verdict(g, obj, alt[i]) is None:
                    bad = None
                if bad:
                    fid_bad.append((g['kernel'], g['params'], obj['inputs'], bad))
                else:
                    fid_ok += 1
            else:
                repro = cex_verdict(obj, r)
                if not repro and i in alt and cex_verdict(obj, alt[i]):
                    repro = True
                    r = alt[i]
                if repro:
                    kf = match_known(known, a.prop, g['kernel'], obj['label'], g['params'], obj['inputs'])
                    rec = dict(property=a.prop, kernel=g['kernel'], params=g['params'], label=obj['label'], inputs=obj['inputs'],
                               detail=obj.get('detail'), concrete=r)
                    if kf:
                        knownhits.append((kf, rec))
                    else:
                        violations.append(rec)
                else:
                    unrepro.append((g['kernel'], g['params'], obj['label'], obj['inputs'], r))
    if fid_bad:
        for kb in fid_bad[:5]:
            incon.append('fidelity mismatch %s %s inputs=%s: %s' % (kb[0], kb[1], json.dumps(kb[2])[:300], kb[3]))
    for u in unrepro[:5]:
        incon.append('counterexample did not reproduce concretely: %s %s label=%s inputs=%s concrete=%s' % (
            u[0], u[1], u[2], json.dumps(u[3])[:300], json.dumps(u[4])[:300]))

    # ---- report
    rc = 0
    seen_known = set()
    for kf, rec in knownhits:
        key = kf.get('id') or kf.get('description')
        if key in seen_known:
            continue
        seen_known.add(key)
        print('KNOWN-FINDING: property=%s %s' % (a.prop, kf.get('description', '')))
    vio_paths = []
    seenv = set()
    for rec in violations:
        key = (rec['kernel'], json.dumps(rec['params'], sort_keys=True), rec['label'])
        if key in seenv:
            continue
        seenv.add(key)
        d = os.path.join(VERIF, 'replays', a.prop)
        os.makedirs(d, exist_ok=True)
        h = hashlib.sha256(json.dumps([rec['kernel'], rec['params'], rec['label'], rec['inputs']], sort_keys=True).encode()).hexdigest()[:10]
        path = os.path.join(d, '%s-%s.json' % (rec['kernel'].split('.', 1)[1], h))
        json.dump(rec, open(path, 'w'), indent=1)
        vio_paths.append(path)
        print('VIOLATION property=%s replay=%s' % (a.prop, path))
        print('  kernel=%s params=%s obligation=%s' % (rec['kernel'], rec['params'], rec['label']))
        print('  inputs=%s' % json.dumps(rec['inputs'])[:600])
        rc = 1
    if rc == 0 and incon:
        rc = 2
    for m in incon[:20]:
        print('INCONCLUSIVE property=%s reason=%s' % (a.prop, m))
    tot_paths = sum(g['paths'] for g in agg.values())
    tot_ob = sum(g['obligations'] for g in agg.values())
    tot_dis = sum(g['discharged'] for g in agg.values())
    print('%s tier=%s kernels=%d tasks=%d paths=%d obligations=%d discharged=%d queries=%d solver_s=%.1f fidelity_ok=%d wall=%.1fs rc=%d' % (
        a.prop, a.tier, len(kernels), len(tasks), tot_paths, tot_ob, tot_dis, sum(g['queries'] for g in agg.values()),
        sum(g['solver_s'] for g in agg.values()), fid_ok, time.time() - t0, rc))
    if a.v:
        for ti, g in sorted(agg.items(), key=lambda x: -x[1]['cpu_s']):
            print('  %-40s %-50s paths=%-6d ob=%-6d q=%-7d cpu=%.1fs solver=%.1fs' % (g['kernel'], json.dumps(g['params'])[:50], g['paths'], g['obligations'], g['queries'], g['cpu_s'], g['solver_s']))
    if not a.no_evidence and not a.kernel:
        write_evidence(a, seed, t0, agg, vio_paths, incon, fid_ok, len(knownhits), kernels)
    return rc


def write_evidence(a, seed, t0, agg, vio_paths, incon, fid_ok, nknown, kernels=()):
    from . import api
    per_kernel = {}
    for g in agg.values():
        k = api.KERNELS[g['kernel']]
        e = per_kernel.setdefault(k.id, dict(kernel=k.id, tasks=0, paths=0, branch_decisions=0, queries=0, solver_s=0.0,
                                             obligations=0, discharged=0, unknown=0, out_of_model=0, cut_paths=0, vacuous_paths=0,
                                             assume_calls=0, symbolic_hash_calls=0, labels={}, functions_encoded={}, params=[],
                                             **k.doc))
        e['tasks'] += 1
        e['paths'] += g['paths']
        e['branch_decisions'] += g['transitions']
        e['queries'] += g['queries']
        e['solver_s'] = round(e['solver_s'] + g['solver_s'], 3)
        e['obligations'] += g['obligations']
        e['discharged'] += g['discharged']
        e['unknown'] += len(g['unknown'])
        e['out_of_model'] += len(g['oom'])
        e['cut_paths'] += g['cuts']
        e['vacuous_paths'] += g['vacuous']
        e['assume_calls'] += g['assumes']
        e['symbolic_hash_calls'] += g['hashes']
        for l, n in g['labels'].items():
            e['labels'][l] = e['labels'].get(l, 0) + n
        e['functions_encoded'].update(g['funcs'])
        if len(e['params']) < 12:
            e['params'].append(g['params'])
    samples = []
    for g in agg.values():
        for s in g['samples'][:1]:
            if len(samples) < 12:
                samples.append(dict(kernel=g['kernel'], params=g['params'], path_model_inputs=s['inputs'],
                                    branch_decisions_on_path=s['decisions'], obligations_on_path=s['obligations']))
    states = sum(g['paths'] for g in agg.values())
    trans = sum(g['transitions'] for g in agg.values())
    assumptions = ['R-float: float arithmetic modelled as exact real arithmetic; float constants denote the rationals they were written as',
                   'shims listed per kernel stand in for C-level builtins (struct, array, bytes, BytesIO, range, int, round, math); each is validated by the concolic fidelity replays counted in traces_validated_against_impl',
                   'verdicts hold for the bounds stated per kernel; everything listed under outside is not claimed']
    ev = dict(property_id=a.prop, tier=a.tier if a.tier in ('quick', 'thorough') else 'quick', seed=seed, level='model_checking',
              coverage=dict(states=states, transitions=trans, traces_validated_against_impl=fid_ok,
                            samples=samples or [dict(note='no path completed')],
                            obligations=sum(g['obligations'] for g in agg.values()),
                            discharged=sum(g['discharged'] for g in agg.values()),
                            unknown=sum(len(g['unknown']) for g in agg.values()),
                            queries=sum(g['queries'] for g in agg.values()),
                            solver_s=round(sum(g['solver_s'] for g in agg.values()), 2),
                            solver='z3 %s (python API) under python3-vt; replay under %s' % (_z3v(), REPLAY_PY),
                            exhaustive=(not incon and all(not g['cuts'] for g in agg.values())),
                            cut_paths=sum(g['cuts'] for g in agg.values()),
                            inconclusive=incon[:20], known_findings_hit=nknown,
                            explanation='bounded symbolic execution of the real functions from /repo/Lib; states = complete paths explored, '
                                        'transitions = solver-decided two-sided branch decisions, one solver query per obligation per path',
                            kernels=sorted(per_kernel.values(), key=lambda e: e['kernel'])),
              assumptions=assumptions, wall_s=round(time.time() - t0, 2), violations=len(vio_paths))
    d = os.path.join(VERIF, 'evidence')
    os.makedirs(d, exist_ok=True)
    json.dump(ev, open(os.path.join(d, a.prop + ".json"), "w"), indent=1, sort_keys=True, default=str)


def _z3v():
    try:
        import z3
        return z3.get_version_string()
    except Exception:
        return '?'


def do_replay(path):
    rec = json.load(open(path))
    case = dict(kernel=rec['kernel'], params=rec['params'], inputs=rec['inputs'])
    label = rec['label']
    repro = False
    for c in (case, dict(case, alt_mode=True)):
        r = run_runner([c], 1)[0]
        if label.startswith('exception:'):
            repro = bool(r['exc']) and r['exc'][0] == label.split(':', 1)[1]
        else:
            repro = any(l == label and not v for l, v in r['obs']) or bool(r['exc'])
        print(json.dumps(r, indent=1)[:3000])
        if repro:
            break
    if repro:
        print('VIOLATION property=%s replay=%s' % (rec['property'], path))
        return 1
    print('replay: obligation %s holds on the current tree' % label)
    return 0


if __name__ == '__main__':
    sys.exit(main())
