"""sx.engine -- path exploration by deterministic re-execution, worker side.

explore_subtree(kernel, params, prefix, vals, budget) runs the kernel under a
forced decision prefix, collects alternatives, and at the end of each path sends
(path condition AND NOT obligation) to z3.
"""
import sys, time, json, hashlib, inspect, os, traceback, random
from fractions import Fraction
import z3
from . import api
from .sym import Ctx, OutOfModel, Infeasible, Control, model_value
from . import symapi

REPO_LIB = os.environ.get('SX_REPO_LIB', '/repo/Lib')


from .util import jsonable


class Tracer:
    """records which functions of /repo/Lib were entered (first path of a task only)"""

    def __init__(self):
        self.codes = {}

    def __call__(self, frame, event, arg):
        if event == 'call':
            co = frame.f_code
            fn = co.co_filename
            if fn.startswith(REPO_LIB) and co not in self.codes:
                self.codes[co] = True

    def summary(self):
        out = {}
        for co in self.codes:
            mod = co.co_filename[len(REPO_LIB) + 1:]
            name = '%s:%s' % (mod, getattr(co, 'co_qualname', co.co_name))
            try:
                lines, _ = inspect.getsourcelines(co)
                sha = hashlib.sha256(''.join(lines).encode()).hexdigest()[:16]
            except Exception:
                sha = '?'
            out[name] = sha
        return out


def _model_inputs(c, m):
    return {name: jsonable(model_value(m, v)) for name, v in c.inputs.items()}


def _model_ok(c, m):
    try:
        return all(z3.is_true(m.eval(a, model_completion=True)) for a in c.solver.assertions())
    except z3.Z3Exception:
        return False


def _valid_model(c):
    """the model of the path condition, CHECKED against every assertion: a model that came out of a retry solver (tactic pipeline, other
    seed) after an `unknown` is not trusted blindly - inputs taken from an invalid model made concolic replays disagree (seen once, under
    heavy machine load).  On failure the path condition is solved once more from scratch; None if that does not give a valid model."""
    m = c.model()
    if c.msolver is c.solver or _model_ok(c, m):
        return m
    s2 = z3.Solver()
    s2.set('timeout', int(c.opts.get('timeout_ms', 120000)))
    s2.add(c.solver.assertions())
    if str(s2.check()) == 'sat':
        m = s2.model()
        if _model_ok(c, m):
            c.msolver = s2
            return m
    return None


def run_path(kernel, params, prefix, vals, opts, trace=False):
    """one execution.  returns dict with the path's outcome"""
    c = Ctx(prefix, vals, opts)
    Ctx.cur = c
    res = dict(status='ok', pending=[], cex=[], unknown=[], oom=None, labels=[], cuts=0, obligations=0,
               discharged=0, fidelity=None, sample=None, funcs=None, exc=None)
    tracer = None
    exc_info = None
    try:
        if trace:
            tracer = Tracer()
            sys.setprofile(tracer)
        # per-path wall-clock guard: a path that does not end (e.g. changed code looping on a symbolic count) becomes an
        # inconclusive path instead of hanging the whole check; other tasks' verdicts are still reported
        limit = float(opts.get('path_timeout_s', 60))
        armed = False
        try:
            import signal, threading
            if threading.current_thread() is threading.main_thread():
                def _on_alarm(signum, frame):
                    raise OutOfModel('path did not end within %.0f s' % limit)
                signal.signal(signal.SIGALRM, _on_alarm)
                signal.setitimer(signal.ITIMER_REAL, limit)
                armed = True
        except Exception:
            armed = False
        try:
            kernel.fn(**params)
        finally:
            if armed:
                signal.setitimer(signal.ITIMER_REAL, 0)
            if trace:
                sys.setprofile(None)
    except OutOfModel as e:
        res['status'] = 'oom'
        res['oom'] = str(e)
        if os.environ.get('SX_DEBUG_OOM'):
            res['oom'] += ' @ ' + ' <- '.join('%s:%d' % (f.filename.split('/')[-1], f.lineno) for f in traceback.extract_tb(e.__traceback__)[-6:][::-1])
    except Infeasible:
        res['status'] = 'vacuous'
    except symapi.Cut as e:
        res['cuts'] = 1
    except Control:
        raise
    except RecursionError as e:
        res['status'] = 'oom'
        res['oom'] = 'RecursionError'
    except Exception as e:
        exc_info = (type(e).__name__, str(e)[:300], traceback.format_exc()[-1500:])
    try:
        res['pending'] = c.pending
        if tracer:
            res['funcs'] = tracer.summary()
        if res['status'] in ('oom', 'vacuous'):
            return res, c
        # reachability witness: the path condition (with all assumes) must be satisfiable
        r = c.check()
        if r != 'sat':
            if r == 'unsat':
                res['status'] = 'vacuous'
            else:
                res['status'] = 'oom'
                res['oom'] = 'path condition unknown'
            return res, c
        m0 = _valid_model(c)
        if m0 is None:
            res['status'] = 'oom'
            res['oom'] = 'no model that satisfies the path condition could be obtained (solver retry under load)'
            return res, c
        inputs0 = _model_inputs(c, m0)
        if exc_info is not None:
            res['cex'].append(dict(label='exception:' + exc_info[0], inputs=inputs0, detail=exc_info[1], tb=exc_info[2]))
            res['labels'].append('exception:' + exc_info[0])
            res['obligations'] += 1
            return res, c
        # fidelity material: the model of the path condition, expected observations
        try:
            expected = [(n, jsonable(model_value(m0, v))) for n, v in c.observed]
            if not res['cuts']:       # a cut path stopped early: the concrete run would go on, nothing to compare
                res['fidelity'] = dict(inputs=inputs0, observed=expected)
        except OutOfModel as e:
            res['status'] = 'oom'
            res['oom'] = 'observe: %s' % e
            return res, c
        res['sample'] = dict(inputs=inputs0, decisions=len(c.decisions), obligations=[l for l, _ in c.obs])
        for label, cond in c.obs:
            res['obligations'] += 1
            res['labels'].append(label)
            cond = z3.simplify(cond)
            if z3.is_true(cond):
                res['discharged'] += 1
                continue
            r = c.check(z3.Not(cond))
            if r == 'unsat':
                res['discharged'] += 1
            elif r == 'sat':
                m = c.model()
                res['cex'].append(dict(label=label, inputs=_model_inputs(c, m)))
            else:
                res['unknown'].append(label)
        return res, c
    finally:
        Ctx.cur = None


def explore_subtree(kernel_id, params, prefix, vals, opts, budget_paths, budget_s, trace_first):
    kernel = api.KERNELS[kernel_id]
    t0 = time.time()
    work = [(prefix, vals)]
    out = dict(kernel=kernel_id, params=params, paths=0, vacuous=0, transitions=0, queries=0, solver_s=0.0,
               obligations=0, discharged=0, cex=[], unknown=[], oom=[], labels={}, cuts=0, fidelity=[], samples=[],
               leftover=[], funcs={}, hashes=0, assumes=0, max_decisions=0)
    kopts = dict(opts)
    kopts.update(kernel.opts)
    first = True
    while work:
        if out['paths'] >= budget_paths or time.time() - t0 > budget_s:
            out['leftover'] = work
            break
        pfx, vs = work.pop()
        res, c = run_path(kernel, params, pfx, vs, kopts, trace=trace_first)
        first = False
        work.extend(res['pending'])
        out['queries'] += c.nq
        out['solver_s'] += c.t
        out['transitions'] += c.ndec
        out['hashes'] += c.hashes
        out['assumes'] += c.assumes
        out['max_decisions'] = max(out['max_decisions'], len(c.decisions))
        if res['funcs']:
            out['funcs'].update(res['funcs'])
        if res['status'] == 'vacuous':
            out['vacuous'] += 1
            continue
        out['paths'] += 1
        if res['status'] == 'oom':
            out['oom'].append(res['oom'])
            continue
        out['cuts'] += res['cuts']
        out['obligations'] += res['obligations']
        out['discharged'] += res['discharged']
        for l in res['labels']:
            out['labels'][l] = out['labels'].get(l, 0) + 1
        out['cex'].extend(res['cex'])
        out['unknown'].extend(res['unknown'])
        if res['fidelity'] is not None:
            out['fidelity'].append(res['fidelity'])
        if res['sample'] is not None and len(out['samples']) < 2:
            out['samples'].append(res['sample'])
    out['wall_s'] = time.time() - t0
    return out
