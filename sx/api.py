"""sx.api -- the mode-neutral surface harness modules are written against.

The same harness function runs
  * symbolically (engine, python3-vt + z3): inputs are proxies, shims are installed in
    the target modules' globals, obligations are z3 formulas decided per path;
  * concretely (replay / fidelity, /venv/bin/python, NO z3, NO shims): inputs are the
    plain ints / floats / Fractions / bytes of a solver model, obligations are bools.
So the replay oracle of every kernel is the kernel itself on the un-shimmed real code.
"""
import sys

_impl = None
MODE = None
KERNELS = {}          # "Cxx.name" -> Kernel


def use(mode):
    global _impl, MODE
    MODE = mode
    if mode == 'sym':
        from . import symapi as m
    else:
        from . import conc as m
    _impl = m
    return m


class Kernel:
    def __init__(self, fn, prop, name, quick, thorough, opts, doc):
        self.fn = fn
        self.prop = prop
        self.name = name
        self.id = '%s.%s' % (prop, name)
        self.quick = quick          # list of param dicts
        self.thorough = thorough
        self.opts = opts
        self.doc = doc


def kernel(prop, name=None, quick=({},), thorough=None, funcs=(), bounds='', assumptions=(), outside=(),
           shims=(), exact=False, **opts):
    """register a kernel.  quick/thorough: lists of parameter dicts (each one is a task)."""
    def deco(fn):
        k = Kernel(fn, prop, name or fn.__name__, list(quick), list(thorough if thorough is not None else quick),
                   opts, dict(funcs=list(funcs), bounds=bounds, assumptions=list(assumptions), outside=list(outside),
                              shims=list(shims), exact=exact))
        k.exact = exact
        KERNELS[k.id] = k
        return fn
    return deco


# ---- input factories -------------------------------------------------------
class _V:
    def int(self, name, lo, hi, bv=True):
        return _impl.v_int(name, lo, hi, bv)

    def real(self, name, lo=None, hi=None):
        return _impl.v_real(name, lo, hi)

    def bool(self, name):
        return _impl.v_bool(name)

    def bytes(self, name, n):
        return _impl.v_bytes(name, n)

    def ints(self, name, n, lo, hi, bv=True):
        return [self.int('%s%d' % (name, i), lo, hi, bv) for i in range(n)]

    def reals(self, name, n, lo=None, hi=None):
        return [self.real('%s%d' % (name, i), lo, hi) for i in range(n)]

    def str(self, name, n, alphabet=None):
        return _impl.v_str(name, n, alphabet)


V = _V()


def assume(cond):
    return _impl.assume(cond)


def ob(label, cond):
    """record an obligation: cond must hold on this path for every input"""
    return _impl.ob(label, cond)


def observe(name, value):
    """record an output for the concolic fidelity comparison (symbolic value under the model vs concrete run)"""
    return _impl.observe(name, value)


def eq(a, b):
    return _impl.eq(a, b)


def be_uint(bs):
    return _impl.be_uint(bs)


def eq_mod32(a, b):
    return _impl.eq_mod32(a, b)


def conj(xs):
    return _impl.conj(list(xs))


def disj(xs):
    return _impl.disj(list(xs))


def neg(a):
    return _impl.neg(a)


def implies(a, b):
    return _impl.disj([_impl.neg(a), b])


def ite(c, a, b):
    return _impl.ite(c, a, b)


def le(a, b):
    return _impl.le(a, b)


def lt(a, b):
    return _impl.lt(a, b)


def is_int(a):
    return _impl.is_int(a)


def absdiff_le(a, b, tol):
    """|a-b| <= tol"""
    return _impl.conj([_impl.le(a - b, tol), _impl.le(b - a, tol)])


def seq_eq(xs, ys):
    xs = list(xs)
    ys = list(ys)
    if len(xs) != len(ys):
        return False
    return _impl.conj([_impl.eq(x, y) for x, y in zip(xs, ys)])


def shim(module, *names, **explicit):
    """install environment shims into `module`'s globals (no-op in concrete mode)"""
    return _impl.shim(module, names, explicit)


def shim_all(*modules):
    """install every standard shim that stands for a name the module uses (its imported struct/array/math/byte helpers)
    plus the proxy-aware builtins (int, float, round, range, isinstance, bytes, bytearray, divmod, sum)"""
    for m in modules:
        _impl.shim_all(m)


def shim_defaults(fn, **names):
    """replace default-argument captures of C builtins (pack=struct.pack, bytechr=bytechr) by shims (sym mode only)"""
    if MODE == 'sym':
        from . import shims as _sh
        m = {}
        for k, v in names.items():
            m[k] = v if not isinstance(v, str) else (getattr(_sh.struct_shim, v[7:]) if v.startswith('struct.') else _sh.STANDARD[v])
        return _impl.shim_defaults(fn, m)


def fresh_module(name):
    """import (sym: a private re-import is not needed; shims are idempotent)"""
    __import__(name)
    return sys.modules[name]


def symbolic():
    return MODE == 'sym'


def cut(reason):
    """end this path as outside the stated bound (counted, reported)"""
    return _impl.cut(reason)


def collide(on=True):
    return _impl.collide(on)


def sset(name, universe):
    """a symbolic subset of `universe` (membership Bool per element)"""
    return _impl.sset(name, universe)


def tobytes(x):
    """harness-side: proxy/real bytes -> canonical comparable"""
    return _impl.tobytes(x)


def real_of(x):
    return _impl.real_of(x)


def instrument(obj, *names, **opts):
    """sym mode: rewrite b"".join(...) (and, with strings=True / membership=True, "".join, "fmt" % x, x in C) in the named
    functions of /repo's current source into shim calls (sx.instrument); no-op in concrete mode"""
    if MODE == 'sym':
        from . import instrument as _i
        return _i.instrument(obj, *names, **opts)
    return 0
