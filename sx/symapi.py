"""sx.symapi -- symbolic-mode implementation of sx.api"""
import z3
from fractions import Fraction
from .sym import (SInt, SReal, SBool, OutOfModel, Infeasible, Control, ctx, is_sym, rexpr, bexpr, Ctx)
from . import shims as _sh
from .shims import SBytes, SByteArray, SArray, SFile


class Cut(Control):
    pass


def v_int(name, lo, hi, bv=True):
    return SInt.var(name, lo, hi, bv)


def v_real(name, lo, hi):
    return SReal.var(name, lo, hi)


def v_bool(name):
    b = SBool(z3.Bool(name))
    ctx().inputs[name] = b
    return b


def v_bytes(name, n):
    bs = [SInt.var('%s[%d]' % (name, i), 0, 255) for i in range(n)]
    c = ctx()
    for i in range(n):
        del c.inputs['%s[%d]' % (name, i)]
    r = SBytes(bs)
    c.inputs[name] = r
    return r


def v_str(name, n, alphabet):
    from .strings import SStr
    return SStr.var(name, n, alphabet)


def _cond(c):
    if isinstance(c, SBool):
        return c.e
    if isinstance(c, z3.BoolRef):
        return c
    if isinstance(c, (SInt, SReal)):
        return c.e != 0
    return z3.BoolVal(bool(c))


def assume(cond):
    c = ctx()
    e = z3.simplify(_cond(cond))
    c.assumes += 1
    if z3.is_false(e):
        raise Infeasible()
    if not z3.is_true(e):
        c.add(e)


def ob(label, cond):
    ctx().obs.append((label, _cond(cond)))


def observe(name, value):
    ctx().observed.append((name, value))


def eq(a, b):
    if isinstance(a, (list, tuple)) and isinstance(b, (list, tuple)):
        if len(a) != len(b):
            return False
        return conj([eq(x, y) for x, y in zip(a, b)])
    if isinstance(a, SBytes) or isinstance(b, SBytes):
        r = SBytes(a) == b if not isinstance(a, SBytes) else a == b
        return r
    if isinstance(a, SArray) and isinstance(b, SArray):
        return a == b
    if isinstance(a, SBool) or isinstance(b, SBool):
        return SBool(bexpr(a) == bexpr(b))
    if is_sym(a) or is_sym(b):
        if isinstance(a, (SReal, float, Fraction)) or isinstance(b, (SReal, float, Fraction)):
            ra, rb = rexpr(a), rexpr(b)
            if ra is None or rb is None:
                return False
            return SBool(ra == rb)
        r = (a == b) if is_sym(a) else (b == a)
        return r
    if isinstance(a, float) or isinstance(b, float):
        try:
            return rexpr(a) is not None and rexpr(b) is not None and bool(z3.is_true(z3.simplify(rexpr(a) == rexpr(b))))
        except Exception:
            return a == b
    return a == b


def be_uint(bs):
    """big-endian unsigned integer of a list of byte values (harness-side spec readers)"""
    return _sh._from_bytes(list(bs), False, True)


def eq_mod32(a, b):
    """a == b (mod 2^32) on the low 32 bits (lets the rewriter normalise modular sums at word level)"""
    a2, b2 = SInt.of(a), SInt.of(b)
    if a2.bv and b2.bv:
        return SBool(z3.simplify(z3.Extract(31, 0, a2.e)) == z3.simplify(z3.Extract(31, 0, b2.e)))
    return (a2 % (1 << 32)) == (b2 % (1 << 32))


def conj(xs):
    es = []
    for x in xs:
        e = _cond(x)
        if z3.is_false(e):
            return False
        if not z3.is_true(e):
            es.append(e)
    if not es:
        return True
    return SBool(z3.And(*es))


def disj(xs):
    es = []
    for x in xs:
        e = _cond(x)
        if z3.is_true(e):
            return True
        if not z3.is_false(e):
            es.append(e)
    if not es:
        return False
    return SBool(z3.Or(*es))


def neg(a):
    e = _cond(a)
    if z3.is_true(e):
        return False
    if z3.is_false(e):
        return True
    return SBool(z3.Not(e))


def ite(c, a, b):
    ce = z3.simplify(_cond(c))
    if z3.is_true(ce):
        return a
    if z3.is_false(ce):
        return b
    if isinstance(a, (SReal, float, Fraction)) or isinstance(b, (SReal, float, Fraction)):
        return SReal(z3.If(ce, rexpr(a), rexpr(b)))
    if isinstance(a, (SBool, bool)) and isinstance(b, (SBool, bool)):
        return SBool(z3.If(ce, bexpr(a), bexpr(b)))
    a2, b2 = SInt.of(a), SInt.of(b, a if isinstance(a, SInt) else None)
    a2, b2 = SInt._unify(a2, b2)
    lo = None if a2.lo is None or b2.lo is None else min(a2.lo, b2.lo)
    hi = None if a2.hi is None or b2.hi is None else max(a2.hi, b2.hi)
    return SInt(z3.If(ce, a2.e, b2.e), lo, hi)


def le(a, b):
    if is_sym(a) or is_sym(b):
        return a <= b
    return rexpr(a) is not None and bool(a <= b)


def lt(a, b):
    return a < b


def is_int(a):
    if isinstance(a, SInt):
        return True
    if isinstance(a, SReal):
        return SBool(z3.IsInt(a.e))
    if isinstance(a, float):
        return a == int(a)
    return isinstance(a, int)


def real_of(x):
    return SReal(rexpr(x))


def shim(module, names, explicit):
    g = module.__dict__ if not isinstance(module, dict) else module
    for n in names:
        g[n] = _sh.STANDARD[n]
    for n, v in explicit.items():
        g[n] = v


def shim_all(module):
    g = module.__dict__
    for n, v in _sh.STANDARD.items():
        if n in _sh.BUILTIN_SHIMS or n in g:
            g[n] = v


def shim_defaults(fn, names):
    """replace captured default arguments (e.g. pack=struct.pack) by the standard shims"""
    import inspect
    params = list(inspect.signature(fn).parameters.values())
    pos = [p for p in params if p.default is not inspect.Parameter.empty and p.kind in (p.POSITIONAL_OR_KEYWORD, p.POSITIONAL_ONLY)]
    d = list(fn.__defaults__ or ())
    for i, p in enumerate(pos):
        if p.name in names:
            d[i] = names[p.name]
    fn.__defaults__ = tuple(d)


def cut(reason):
    ctx().cuts += 1
    raise Cut(reason)


def collide(on):
    ctx().collide = on


class SSet:
    """symbolic subset of a concrete universe: one Bool per element"""

    def __init__(self, name, universe):
        self.universe = list(universe)
        self.m = {}
        c = ctx()
        for u in self.universe:
            b = SBool(z3.Bool('%s[%s]' % (name, u)))
            c.inputs['%s[%s]' % (name, u)] = b
            self.m[u] = b

    def __contains__(self, x):
        b = self.m.get(x)
        if b is None:
            return False
        return bool(b)

    def member(self, x):
        return self.m.get(x, False)

    def __iter__(self):
        # iteration order = universe order, membership decided per element
        for u in self.universe:
            if bool(self.m[u]):
                yield u

    def __len__(self):
        return sum(1 for _ in self)

    def __bool__(self):
        return any(True for _ in self)

    def intersection(self, other):
        return {u for u in self if u in other}

    def __and__(self, other):
        return self.intersection(other)
    __rand__ = __and__

    def issuperset(self, other):
        return all(o in self for o in other)

    def __ge__(self, other):
        return self.issuperset(other)

    def isdisjoint(self, other):
        return not any(o in self for o in other)

    def copy(self):
        return {u for u in self}


def sset(name, universe):
    return SSet(name, universe)


def tobytes(x):
    if isinstance(x, SArray):
        return x.tobytes()
    return x if isinstance(x, SBytes) else SBytes(x)
