"""sx.shims -- environment stubs installed into target modules' globals (symbolic mode only).

Every shim delegates to the real builtin when no proxy is involved, so code that
runs on concrete data behaves exactly as without the shim.
"""
import struct as _struct, sys, math as _math, builtins as _bi, array as _array, io as _io
from fractions import Fraction
import z3
from .sym import (SInt, SReal, SBool, OutOfModel, ctx, is_sym, rexpr, bexpr, in_message_context, SENTINEL, Ctx)


def _isym(x):
    return isinstance(x, SInt)


def _byteval(v):
    """validate a byte value (forks on range when symbolic)"""
    if _isym(v):
        if v.lo is not None and v.hi is not None and 0 <= v.lo and v.hi <= 255:
            return v
        if bool((v < 0) | (v > 255)):
            raise ValueError('byte must be in range(0, 256)')
        return SInt(v.e, 0, 255)
    if isinstance(v, SBool):
        return SInt.of(v)
    if not isinstance(v, int):
        raise TypeError("'%s' object cannot be interpreted as an integer" % type(v).__name__)
    if v == SENTINEL:
        raise OutOfModel('message sentinel reached a byte container')
    if not 0 <= v <= 255:
        raise ValueError('byte must be in range(0, 256)')
    return v


class SBytes:
    """bytes stand-in: concrete length, items are ints or byte-valued SInt"""
    mutable = False

    def __init__(self, items=(), encoding=None, errors=None):
        if isinstance(items, (bytes, bytearray)):
            items = list(items)
        elif isinstance(items, SBytes):
            items = list(items.b)
        elif isinstance(items, SArray):
            items = list(items.tobytes().b)
        elif isinstance(items, str):
            items = list(items.encode(encoding or 'ascii'))
        elif isinstance(items, int):
            items = [0] * items
        elif isinstance(items, SInt):
            items = [0] * ctx().concretise(items.e, 'bytes(n)')
        elif isinstance(items, memoryview):
            items = list(bytes(items))
        else:
            items = [_byteval(v) for v in items]
        self.b = items

    def __len__(self):
        return len(self.b)

    def __iter__(self):
        return iter(self.b)

    def __getitem__(self, i):
        if isinstance(i, slice):
            if any(_isym(x) for x in (i.start, i.stop, i.step)):
                i = slice(*[ctx().concretise(x.e, 'slice') if _isym(x) else x for x in (i.start, i.stop, i.step)])
            return type(self)(self.b[i])
        if _isym(i):
            i = ctx().concretise(i.e, 'bytes index')
        return self.b[i]

    def __add__(self, o):
        if not isinstance(o, (SBytes, bytes, bytearray)):
            return NotImplemented
        return _norm(type(self)(self.b + list(SBytes(o).b)))

    def __radd__(self, o):
        if not isinstance(o, (SBytes, bytes, bytearray)):
            return NotImplemented
        return SBytes(list(SBytes(o).b) + self.b)

    def __mul__(self, n):
        return type(self)(self.b * n)
    __rmul__ = __mul__

    def __bool__(self):
        return len(self.b) > 0

    def _eqcond(self, o):
        if not isinstance(o, (SBytes, bytes, bytearray)):
            return None
        ob = o.b if isinstance(o, SBytes) else list(o)
        if len(ob) != len(self.b):
            return False
        conds = []
        for x, y in zip(self.b, ob):
            if _isym(x) or _isym(y):
                c = (SInt.of(x) == y)
                conds.append(c.e)
            elif x != y:
                return False
        if not conds:
            return True
        return SBool(z3.And(*conds))

    def __eq__(self, o):
        r = self._eqcond(o)
        return False if r is None else r

    def __ne__(self, o):
        r = self._eqcond(o)
        if r is None:
            return True
        return (not r) if isinstance(r, bool) else ~r

    def __lt__(self, o):
        return self._lex(o) < 0

    def __gt__(self, o):
        return self._lex(o) > 0

    def __le__(self, o):
        return self._lex(o) <= 0

    def __ge__(self, o):
        return self._lex(o) >= 0

    def _lex(self, o):
        ob = SBytes(o).b
        for x, y in zip(self.b, ob):
            if bool(SInt.of(x) < y):
                return -1
            if bool(SInt.of(x) > y):
                return 1
        return (len(self.b) > len(ob)) - (len(self.b) < len(ob))

    def __hash__(self):
        if self.concrete():
            return hash(bytes(self.b))
        c = ctx()
        if c.collide:
            c.hashes += 1
            return hash(len(self.b))
        raise OutOfModel('hash of symbolic bytes')

    def __repr__(self):
        return 'SBytes(%r)' % (self.b,)

    def __contains__(self, x):
        if isinstance(x, (bytes, SBytes)):
            x = SBytes(x)
            n = len(x)
            return any(bool(SBytes(self.b[i:i + n]) == x) for i in range(len(self.b) - n + 1))
        return any(bool(SInt.of(v) == x) for v in self.b)

    def concrete(self):
        return all(not _isym(x) for x in self.b)

    def startswith(self, p):
        p = SBytes(p)
        return bool(SBytes(self.b[:len(p)]) == p) if len(p) <= len(self.b) else False

    def endswith(self, p):
        p = SBytes(p)
        return bool(SBytes(self.b[len(self.b) - len(p):]) == p) if len(p) <= len(self.b) else False

    def join(self, it):
        out = []
        first = True
        for x in it:
            if not first:
                out.extend(self.b)
            out.extend(SBytes(x).b)
            first = False
        return _norm(SBytes(out))

    def decode(self, encoding='utf-8', errors='strict'):
        if self.concrete():
            return bytes(self.b).decode(encoding, errors)
        if in_message_context():
            return '<sym>'
        raise OutOfModel('decode of symbolic bytes')

    def ljust(self, n, fill=b'\0'):
        return SBytes(self.b + list(fill) * max(0, n - len(self.b)))

    def hex(self):
        if self.concrete():
            return bytes(self.b).hex()
        raise OutOfModel('hex of symbolic bytes')

    def _sx_model_value(self, m):
        from .sym import model_value
        return [model_value(m, x) if _isym(x) else x for x in self.b]


class SByteArray(SBytes):
    mutable = True

    def append(self, v):
        self.b.append(_byteval(v))

    def extend(self, it):
        if isinstance(it, SArray):
            it = it.tobytes()
        if isinstance(it, SBytes):
            self.b.extend(it.b)
            return
        for v in it:
            self.append(v)

    def __setitem__(self, i, v):
        if isinstance(i, slice):
            self.b[i] = list(SBytes(v).b)
            return
        if _isym(i):
            i = ctx().concretise(i.e, 'index')
        self.b[i] = _byteval(v)

    def __iadd__(self, o):
        self.extend(SBytes(o))
        return self

    def __add__(self, o):
        return SByteArray(self.b + list(SBytes(o).b))

    def __hash__(self):
        raise TypeError('unhashable type: bytearray')


def _norm(x):
    """SBytes -> real bytes when fully concrete"""
    if type(x) is SBytes and x.concrete():
        return bytes(x.b)
    return x


def bytes_shim(*a, **k):
    if not a:
        return b''
    x = a[0]
    if isinstance(x, (SBytes, SArray)) or _isym(x):
        return _norm(SBytes(x))
    if isinstance(x, (list, tuple)) and any(is_sym(v) for v in x):
        return SBytes(x)
    try:
        return bytes(*a, **k)
    except TypeError:
        x = list(x)
        if any(is_sym(v) for v in x):
            return SBytes(x)
        raise


bytes_shim.fromhex = bytes.fromhex


def bytearray_shim(*a, **k):
    if not a:
        return SByteArray()
    return SByteArray(a[0])


_CODES = {'b': (1, True), 'B': (1, False), 'h': (2, True), 'H': (2, False), 'i': (4, True), 'I': (4, False),
          'l': (4, True), 'L': (4, False), 'q': (8, True), 'Q': (8, False), 'c': (1, False)}
_NATIVE = {'l': (8, True), 'L': (8, False)}


def _parse(fmt):
    if isinstance(fmt, bytes):
        fmt = fmt.decode()
    if isinstance(fmt, SBytes):
        fmt = bytes(fmt.b).decode()
    order = '@'
    if fmt and fmt[0] in '@=<>!':
        order, fmt = fmt[0], fmt[1:]
    out = []
    n = ''
    for ch in fmt:
        if ch.isdigit():
            n += ch
            continue
        if ch.isspace():
            continue
        cnt = int(n) if n else 1
        n = ''
        if ch in _CODES:
            out.extend([ch] * cnt)
        elif ch == 'x':
            out.extend(['x'] * cnt)
        elif ch == 's':
            out.append(('s', cnt))
        else:
            raise OutOfModel('struct code %r' % ch)
    if order == '@':
        if len(out) > 1 and any((c if isinstance(c, str) else 's') not in 'bBcxs' for c in out):
            raise OutOfModel('native struct alignment')
        out = [{'l': 'q', 'L': 'Q'}.get(c, c) if isinstance(c, str) else c for c in out]   # native long is 8 bytes here
        return sys.byteorder == 'big', out
    big = order in '>!'
    return big, out


def _to_bytes(v, size, signed, big, exc=None):
    exc = exc or (lambda: _struct.error('argument out of range'))
    lo, hi = (-(1 << (8 * size - 1)), (1 << (8 * size - 1)) - 1) if signed else (0, (1 << (8 * size)) - 1)
    if isinstance(v, SBool):
        v = SInt.of(v)
    if _isym(v):
        if isinstance(v.prov, tuple) and v.prov[0] == 'le' and v.prov[2] == size and v.lo is not None and v.lo >= lo and v.hi <= hi:
            return list(v.prov[1][::-1]) if big else list(v.prov[1])
        if not v.bv:
            if bool((v < lo) | (v > hi)):
                raise exc()
            u = z3.If(v.e < 0, v.e + (1 << (8 * size)), v.e) if signed else v.e
            bs = [SInt(z3.simplify((u / z3.IntVal(1 << (8 * k))) % 256), 0, 255) for k in range(size)]
            for k, b in enumerate(bs):
                b.prov = (u, k, size)      # byte k of the size-byte little-endian expansion of u (0 <= u < 256^size)
            return bs[::-1] if big else bs
        elif not (v.lo >= lo and v.hi <= hi):
            if bool((v < lo) | (v > hi)):
                raise exc()
        bs = [SInt(z3.simplify((v.e >> (8 * k)) & 0xFF), 0, 255) for k in range(size)]
        for k, b in enumerate(bs):
            b.prov = (v.e, k, size, signed)      # byte k of the size-byte two's-complement expansion of v
        bs = [b.e.as_long() if z3.is_bv_value(b.e) else b for b in bs]
    else:
        if isinstance(v, (SReal, float)):
            raise _struct.error('required argument is not an integer')
        if not isinstance(v, int):
            raise _struct.error('required argument is not an integer')
        if v == SENTINEL and Ctx.cur is not None:
            raise OutOfModel('message sentinel reached struct.pack')
        if not lo <= v <= hi:
            raise exc()
        bs = [(v >> (8 * k)) & 0xFF for k in range(size)]
    return bs[::-1] if big else bs


def _from_bytes(bs, signed, big):
    if not big:
        bs = bs[::-1]
    size = len(bs)
    if not any(_isym(b) for b in bs):
        return int.from_bytes(bytes(bs), 'big', signed=signed)
    if size >= 8 or any(_isym(b) and not b.bv for b in bs):
        p0 = getattr(bs[0], 'prov', None)
        if p0 is not None and p0[2] == size and all(
                getattr(b, 'prov', None) is not None and b.prov[2] == size and b.prov[1] == size - 1 - i and b.prov[0].eq(p0[0])
                for i, b in enumerate(bs)):
            e = p0[0]          # sum_k byte_k(u) * 256^k == u   (exact rewrite, 0 <= u < 256^size)
        else:
            e = z3.IntVal(0)
            for b in bs:
                e = e * 256 + SInt.of(b).to_int_sort().e
            e = z3.simplify(e)
        if signed:
            e = z3.If(e >= (1 << (8 * size - 1)), e - (1 << (8 * size)), e)
            return SInt(e, -(1 << (8 * size - 1)), (1 << (8 * size - 1)) - 1)
        return SInt(e, 0, (1 << (8 * size)) - 1)
    p0 = getattr(bs[0], 'prov', None) if _isym(bs[0]) else None
    if p0 is not None and len(p0) == 4 and p0[2] == size and p0[3] == signed and all(
            _isym(b) and b.prov is not None and len(b.prov) == 4 and b.prov[2] == size and b.prov[1] == size - 1 - i
            and b.prov[3] == signed and b.prov[0].eq(p0[0]) for i, b in enumerate(bs)):
        # reassembling the bytes of one packed value gives that value back (exact rewrite; keeps word-level structure)
        lo, hi = (-(1 << (8 * size - 1)), (1 << (8 * size - 1)) - 1) if signed else (0, (1 << (8 * size)) - 1)
        return SInt(p0[0], lo, hi)
    e = None
    for b in bs:
        be = SInt.of(b).e
        e = be if e is None else ((e << 8) | be)
    e = z3.simplify(e)
    if signed:
        e = z3.If(e >= (1 << (8 * size - 1)), e - (1 << (8 * size)), e)
        return SInt(e, -(1 << (8 * size - 1)), (1 << (8 * size - 1)) - 1)
    return SInt(e, 0, (1 << (8 * size)) - 1)


class struct_shim:
    error = _struct.error
    Struct = _struct.Struct

    @staticmethod
    def calcsize(fmt):
        return _struct.calcsize(fmt)

    @staticmethod
    def pack(fmt, *args):
        if all(not is_sym(a) and not isinstance(a, SBytes) for a in args):
            return _struct.pack(fmt, *args)
        big, codes = _parse(fmt)
        out = []
        args = list(args)
        for c in codes:
            if c == 'x':
                out.append(0)
                continue
            if not args:
                raise _struct.error('pack expected more items for packing')
            if isinstance(c, tuple):
                s = SBytes(args.pop(0))
                out.extend((s.b + [0] * c[1])[:c[1]])
                continue
            size, signed = _CODES[c]
            if c == 'c':
                out.extend(SBytes(args.pop(0)).b)
                continue
            out.extend(_to_bytes(args.pop(0), size, signed, big))
        if args:
            raise _struct.error('pack got too many items for packing')
        return _norm(SBytes(out))

    @staticmethod
    def unpack(fmt, data):
        if isinstance(data, (bytes, bytearray, memoryview)):
            return _struct.unpack(fmt, data)
        if isinstance(data, SArray):
            data = data.tobytes()
        if data.concrete():
            return _struct.unpack(fmt, bytes(data.b))
        if len(data) != _struct.calcsize(fmt):
            raise _struct.error('unpack requires a buffer of %d bytes' % _struct.calcsize(fmt))
        big, codes = _parse(fmt)
        pos = 0
        out = []
        for c in codes:
            if c == 'x':
                pos += 1
                continue
            if isinstance(c, tuple):
                out.append(_norm(SBytes(data.b[pos:pos + c[1]])))
                pos += c[1]
                continue
            size, signed = _CODES[c]
            if c == 'c':
                out.append(_norm(SBytes(data.b[pos:pos + 1])))
            else:
                out.append(_from_bytes(data.b[pos:pos + size], signed, big))
            pos += size
        return tuple(out)

    @staticmethod
    def unpack_from(fmt, data, offset=0):
        n = _struct.calcsize(fmt)
        if isinstance(data, (bytes, bytearray, memoryview)):
            return _struct.unpack_from(fmt, data, offset)
        if _isym(offset):
            offset = ctx().concretise(offset.e, 'unpack_from offset')
        if offset + n > len(data):
            raise _struct.error('unpack_from requires a buffer of at least %d bytes' % (offset + n))
        return struct_shim.unpack(fmt, SBytes(data.b[offset:offset + n]))

    @staticmethod
    def pack_into(fmt, buf, offset, *args):
        d = struct_shim.pack(fmt, *args)
        buf[offset:offset + len(d)] = d


_ACODES = dict(_CODES)
_ACODES.update({'l': (8, True), 'L': (8, False), 'd': (8, None), 'f': (4, None)})


class SArray:
    """array.array stand-in (native little-endian like this platform)"""

    def __init__(self, typecode, init=()):
        if typecode not in _ACODES:
            raise OutOfModel('array typecode %r' % typecode)
        self.typecode = typecode
        self.itemsize, self.signed = _ACODES[typecode]
        self.a = []
        if isinstance(init, (SBytes, bytes, bytearray)):
            self.frombytes(init)
        else:
            for v in init:
                self.append(v)

    def _chk(self, v):
        size, signed = self.itemsize, self.signed
        if signed is None:
            # float array (R-float: items are exact reals); ints become reals like array('d') makes them floats
            if isinstance(v, SReal):
                return v
            if isinstance(v, SInt):
                return SReal.of_int(v)
            if isinstance(v, SBool):
                return SReal(rexpr(v))
            if isinstance(v, (int, float)):
                return float(v)
            if isinstance(v, Fraction):
                return v
            raise TypeError('must be real number, not %s' % type(v).__name__)
        lo, hi = (-(1 << (8 * size - 1)), (1 << (8 * size - 1)) - 1) if signed else (0, (1 << (8 * size)) - 1)
        if _isym(v):
            if not v.bv:
                if bool((v < lo) | (v > hi)):
                    raise OverflowError('array item out of range')
                v = v.to_bv(lo, hi)
            elif not (v.lo >= lo and v.hi <= hi):
                if bool((v < lo) | (v > hi)):
                    raise OverflowError('array item out of range')
        elif isinstance(v, (float, SReal)):
            raise TypeError("'float' object cannot be interpreted as an integer")
        elif isinstance(v, SBool):
            v = SInt.of(v)
        elif not lo <= v <= hi:
            raise OverflowError('array item out of range')
        return v

    def append(self, v):
        self.a.append(self._chk(v))

    def extend(self, it):
        if isinstance(it, SArray):
            if it.typecode != self.typecode:
                raise TypeError('can only extend with array of same kind')
            self.a.extend(it.a)
            return
        for v in it:
            self.append(v)

    def frombytes(self, data):
        if self.signed is None:
            d = SBytes(data)
            if any(_isym(b) for b in d.b):
                raise OutOfModel('float array frombytes on symbolic bytes')
            self.a.extend(_array.array(self.typecode, bytes(d.b)).tolist())
            return
        data = SBytes(data)
        if len(data) % self.itemsize:
            raise ValueError('bytes length not a multiple of item size')
        for i in range(0, len(data), self.itemsize):
            bs = data.b[i:i + self.itemsize]
            r = _from_bytes(bs, self.signed, sys.byteorder == 'big')
            if _isym(r) and self.itemsize > 1 and r.prov is None:
                r.prov = ('le', list(bs) if sys.byteorder != 'big' else list(bs[::-1]), self.itemsize)
            self.a.append(r)

    def tobytes(self):
        if self.signed is None:
            raise OutOfModel('float array tobytes')
        out = []
        for v in self.a:
            out.extend(_to_bytes(v, self.itemsize, self.signed, sys.byteorder == 'big'))
        return _norm(SBytes(out))

    def byteswap(self):
        if self.itemsize == 1:
            return
        out = []
        for v in self.a:
            bs = _to_bytes(v, self.itemsize, self.signed, True)      # big-endian bytes of the old value
            r = _from_bytes(bs, self.signed, False)                  # ... read little-endian = the swapped value
            if _isym(r):
                r.prov = ('le', list(bs), self.itemsize)             # its little-endian byte expansion, kept structurally
            out.append(r)
        self.a = out

    def __len__(self):
        return len(self.a)

    def __iter__(self):
        return iter(self.a)

    def __getitem__(self, i):
        if isinstance(i, slice):
            r = SArray(self.typecode)
            r.a = self.a[i]
            return r
        if _isym(i):
            i = ctx().concretise(i.e, 'array index')
        return self.a[i]

    def __setitem__(self, i, v):
        if isinstance(i, slice):
            self.a[i] = [self._chk(x) for x in v]
            return
        if _isym(i):
            i = ctx().concretise(i.e, 'array index')
        self.a[i] = self._chk(v)

    def __delitem__(self, i):
        del self.a[i]

    def __add__(self, o):
        r = SArray(self.typecode)
        r.a = self.a + list(o.a if isinstance(o, SArray) else o)
        return r

    def __iadd__(self, o):
        self.extend(o)
        return self

    def insert(self, i, v):
        self.a.insert(i, self._chk(v))

    def pop(self, i=-1):
        return self.a.pop(i)

    def tolist(self):
        return list(self.a)

    def index(self, v):
        for i, x in enumerate(self.a):
            if bool(SInt.of(x) == v):
                return i
        raise ValueError('array.index(x): x not in array')

    def __eq__(self, o):
        if not isinstance(o, SArray) or len(o.a) != len(self.a):
            return False
        if self.signed is None:
            conds = [rexpr(x) == rexpr(y) for x, y in zip(self.a, o.a)]
        else:
            conds = [bexpr(SInt.of(x) == y) for x, y in zip(self.a, o.a)]
        return SBool(z3.And(*conds)) if conds else True

    def __ne__(self, o):
        r = self.__eq__(o)
        return (not r) if isinstance(r, bool) else ~r

    def __hash__(self):
        raise TypeError('unhashable type: array')

    def _sx_model_value(self, m):
        from .sym import model_value
        return [model_value(m, x) for x in self.a]


def array_ctor(typecode, init=()):
    if isinstance(init, SArray):
        init = init.a
    return SArray(typecode, init)


class array_shim:
    """stands for the `array` module (array.array(...)) and, when called, for `from array import array`"""
    array = staticmethod(array_ctor)
    ArrayType = SArray

    def __new__(cls, typecode, init=()):
        return array_ctor(typecode, init)


def byteord(c):
    if isinstance(c, (int, SInt)):
        return c
    if isinstance(c, SBytes):
        if len(c) != 1:
            raise TypeError('ord() expected a character, but string of length %d found' % len(c))
        return c.b[0]
    return ord(c)


def bytechr(n):
    if _isym(n):
        return SBytes([n])
    return bytes([n])


def bytesjoin(it, joiner=b''):
    out = []
    first = True
    for x in it:
        if not first and joiner:
            out.extend(list(joiner))
        out.extend(SBytes(x).b)
        first = False
    return _norm(SBytes(out))


def tobytes_shim(s, encoding='ascii', errors='strict'):
    if isinstance(s, SBytes):
        return s
    if isinstance(s, str):
        return s.encode(encoding, errors)
    return bytes(s)


_symtag_counter = [0]


class SymText(str):
    """opaque text decoded from symbolic bytes (table tags): assumed pairwise distinct and different from every literal"""


def tostr_shim(s, encoding='ascii', errors='strict'):
    if isinstance(s, SBytes):
        if not s.concrete() and not in_message_context() and ctx().opts.get('opaque_tags'):
            _symtag_counter[0] += 1
            return SymText('\x00sym%d' % _symtag_counter[0])
        return s.decode(encoding, errors)
    if not isinstance(s, str):
        return s.decode(encoding, errors)
    return s


class SFile:
    """file object over a byte list of concrete length"""

    def __init__(self, data=b''):
        self.d = list(SBytes(data).b)
        self.pos = 0
        self.closed = False
        self.name = '<sx>'

    def seek(self, off, whence=0):
        if whence == 2:
            self.pos = len(self.d) + (off if not _isym(off) else ctx().concretise(off.e, 'seek'))
            return self.pos
        if whence == 1:
            off = self.pos + off
        if _isym(off):
            if bool(off > len(self.d)):
                self.pos = len(self.d) + 1     # one "beyond EOF" class: reads return b""
                return self.pos
            if bool(off < 0):
                raise ValueError('negative seek value')
            off = ctx().concretise(off.e, 'seek')
        if off < 0:
            raise ValueError('negative seek value %d' % off)
        self.pos = off
        return self.pos

    def tell(self):
        return self.pos

    def read(self, n=-1):
        rem = max(0, len(self.d) - self.pos)
        if n is None:
            n = -1
        if _isym(n):
            if bool(n >= rem) or bool(n < 0):
                n = rem
            else:
                n = ctx().concretise(n.e, 'read length')
        if n < 0 or n > rem:
            n = rem
        out = self.d[self.pos:self.pos + n]
        self.pos += n
        return _norm(SBytes(out))

    def write(self, data):
        data = list(SBytes(data).b)
        if self.pos > len(self.d):
            self.d.extend([0] * (self.pos - len(self.d)))
        self.d[self.pos:self.pos + len(data)] = data
        self.pos += len(data)
        return len(data)

    def getvalue(self):
        return _norm(SBytes(self.d))

    def getbuffer(self):
        return SBytes(self.d)

    def truncate(self, n=None):
        if n is None:
            n = self.pos
        del self.d[n:]

    def flush(self):
        pass

    def close(self):
        self.closed = True

    def seekable(self):
        return True

    def __enter__(self):
        return self

    def __exit__(self, *a):
        self.close()


def BytesIO_shim(data=b''):
    return SFile(data)


class srange:
    """range() that tolerates symbolic bounds: iterates lazily, forking on i < stop"""

    def __init__(self, *a):
        if len(a) == 1:
            self.start, self.stop, self.step = 0, a[0], 1
        elif len(a) == 2:
            self.start, self.stop, self.step = a[0], a[1], 1
        else:
            self.start, self.stop, self.step = a
        if _isym(self.step):
            self.step = ctx().concretise(self.step.e, 'range step')
        self._sym = _isym(self.start) or _isym(self.stop)
        self._n = None
        if not self._sym:
            self._r = range(self.start, self.stop, self.step)
        elif self.step == 1:
            # symbolic start and stop with a CONCRETE distance (range(g, g + n)): known length, no forking
            diff = SInt.of(self.stop) - SInt.of(self.start)
            de = z3.simplify(diff.e)
            if z3.is_bv_value(de):
                self._n = max(0, de.as_signed_long())
            elif z3.is_int_value(de):
                self._n = max(0, de.as_long())

    def __iter__(self):
        if not self._sym:
            return iter(self._r)
        return self._gen()

    def _gen(self):
        i = self.start
        if self._n is not None:
            for k in range(self._n):
                yield self.start + k
            return
        if self.step > 0:
            while bool(i < self.stop):
                yield i
                i = i + self.step
        else:
            while bool(i > self.stop):
                yield i
                i = i + self.step

    def __len__(self):
        if not self._sym:
            return len(self._r)
        if self._n is not None:
            return self._n
        raise OutOfModel('len(range(symbolic))')

    def __getitem__(self, i):
        if not self._sym:
            return self._r[i]
        if self._n is not None and isinstance(i, int):
            if not -self._n <= i < self._n:
                raise IndexError('range object index out of range')
            return self.start + (i if i >= 0 else self._n + i)
        raise OutOfModel('range(symbolic)[i]')

    def __reversed__(self):
        if not self._sym:
            return reversed(self._r)
        raise OutOfModel('reversed(range(symbolic))')

    def __contains__(self, x):
        if not self._sym and not is_sym(x):
            return x in self._r
        if self.step != 1:
            raise OutOfModel('x in range(step)')
        return bool((SInt.of(x) >= self.start) & (SInt.of(x) < self.stop))


class _ClassShim:
    """stands for a builtin class under its usual name: callable like the class, compares equal to it (`type(x) == int`), and carries the
    class attributes code reaches through the name (int.from_bytes, int.__or__, float.fromhex)"""

    def __init__(self, real, call, **attrs):
        self._real = real
        self._call = call
        self.__name__ = real.__name__
        for k, v in attrs.items():
            setattr(self, k, v)

    def __call__(self, *a, **k):
        return self._call(*a, **k)

    def __eq__(self, o):
        return o is self or o is self._real

    def __ne__(self, o):
        return not self.__eq__(o)

    def __hash__(self):
        return hash(self._real)

    def __instancecheck__(self, obj):
        return isinstance_shim(obj, self._real)

    def __repr__(self):
        return '<shim for %s>' % self._real.__name__


def _int_call(x=0, *a):
    if isinstance(x, SInt):
        return x
    if isinstance(x, SReal):
        return x.__trunc__()
    if isinstance(x, SBool):
        return SInt.of(x)
    return int(x, *a)


import operator as _op
int_shim = _ClassShim(int, _int_call, bit_length=lambda x: x.bit_length(),
                      from_bytes=lambda b, byteorder='big', signed=False: (
                          _from_bytes(list(SBytes(b).b), signed, byteorder == 'big') if isinstance(b, SBytes) else int.from_bytes(b, byteorder, signed=signed)),
                      **{n: getattr(_op, n) for n in ('__or__', '__and__', '__xor__', '__add__', '__sub__', '__mul__', '__lt__', '__le__', '__neg__')})


def _float_call(x=0.0):
    if isinstance(x, SReal):
        return x
    if isinstance(x, SInt):
        return SReal.of_int(x)
    return float(x)


float_shim = _ClassShim(float, _float_call, fromhex=float.fromhex)


def round_shim(x, n=None):
    if isinstance(x, (SReal, SInt)):
        return x.__round__(n)
    return round(x, n) if n is not None else round(x)


def abs_shim(x):
    return abs(x)


def _realcls(c):
    return _SHIM2REAL.get(c, c) if not isinstance(c, tuple) else tuple(_realcls(x) for x in c)


def isinstance_shim(obj, cls):
    cls = _realcls(cls)
    if type(obj).__name__ == 'SStr':
        t = cls if isinstance(cls, tuple) else (cls,)
        return any(c in (str, object) or getattr(c, '__name__', '') == 'SStr' for c in t)
    if isinstance(obj, SInt):
        t = cls if isinstance(cls, tuple) else (cls,)
        from numbers import Number, Integral, Real
        return any(c in (int, Number, Integral, Real, object, SInt) for c in t)
    if isinstance(obj, SReal):
        t = cls if isinstance(cls, tuple) else (cls,)
        from numbers import Number, Real
        return any(c in (float, Number, Real, object, SReal) for c in t)
    if isinstance(obj, SBool):
        t = cls if isinstance(cls, tuple) else (cls,)
        return any(c in (bool, int, object, SBool) for c in t)
    if isinstance(obj, SComplex):
        t = cls if isinstance(cls, tuple) else (cls,)
        from numbers import Number, Complex
        return any(c in (complex, Number, Complex, object, SComplex) for c in t)
    if isinstance(obj, SBytes):
        t = cls if isinstance(cls, tuple) else (cls,)
        if obj.mutable:
            return any(c in (bytearray, object, SBytes, SByteArray) for c in t)
        return any(c in (bytes, object, SBytes) for c in t)
    if isinstance(obj, SArray):
        t = cls if isinstance(cls, tuple) else (cls,)
        return any(c in (_array.array, object, SArray) for c in t)
    return isinstance(obj, cls)


def type_shim(*a):
    if len(a) == 1:
        o = a[0]
        if isinstance(o, SInt):
            return int
        if isinstance(o, SReal):
            return float
        if isinstance(o, SBool):
            return bool
        if isinstance(o, SBytes):
            return bytearray if o.mutable else bytes
    return type(*a)


class math_shim:
    def __getattr__(self, k):
        return getattr(_math, k)

    @staticmethod
    def floor(x):
        if isinstance(x, (SReal, SInt)):
            return x.__floor__()
        return _math.floor(x)

    @staticmethod
    def ceil(x):
        if isinstance(x, (SReal, SInt)):
            return x.__ceil__()
        return _math.ceil(x)

    @staticmethod
    def trunc(x):
        if isinstance(x, (SReal, SInt)):
            return x.__trunc__()
        return _math.trunc(x)

    @staticmethod
    def isnan(x):
        if is_sym(x):
            return False
        return _math.isnan(x)

    @staticmethod
    def isinf(x):
        if is_sym(x):
            return False
        return _math.isinf(x)

    @staticmethod
    def isfinite(x):
        if is_sym(x):
            return True
        return _math.isfinite(x)

    @staticmethod
    def fabs(x):
        if is_sym(x):
            return abs(SReal(rexpr(x)))
        return _math.fabs(x)

    @staticmethod
    def copysign(x, y):
        if is_sym(x) or is_sym(y):
            ax = abs(x)
            return ax if bool(y >= 0) else -ax
        return _math.copysign(x, y)

    @staticmethod
    def isclose(a, b, rel_tol=1e-09, abs_tol=0.0):
        if is_sym(a) or is_sym(b):
            if rel_tol == 1e-09 and not abs_tol:
                # default tolerances only absorb float rounding noise; under R-float (exact reals) there is none: a == b
                return bool(a == b)
            d = abs(a - b)
            m = abs(a)
            mb = abs(b)
            big = m if bool(m >= mb) else mb
            return bool((d <= rel_tol * big) | (d <= abs_tol))
        return _math.isclose(a, b, rel_tol=rel_tol, abs_tol=abs_tol)


def divmod_shim(a, b):
    if isinstance(a, SInt) or isinstance(b, SInt):
        return SInt.of(a, b if isinstance(b, SInt) else None).__divmod__(b)
    return divmod(a, b)


def len_shim(x):
    return len(x)


def min_shim(*a, **k):
    return min(*a, **k)


def max_shim(*a, **k):
    return max(*a, **k)


def sum_shim(it, start=0):
    r = start
    for x in it:
        r = r + x
    return r


class SNorm:
    """abs() of a symbolic complex: only comparable; encoded through squares (no square roots)"""

    def __init__(self, sq):
        self.sq = sq        # z3 Real term, >= 0

    def _le(self, t):
        te = rexpr(t)
        return z3.And(te >= 0, self.sq <= te * te)

    def _lt(self, t):
        te = rexpr(t)
        return z3.And(te > 0, self.sq < te * te)

    def __le__(self, t):
        if isinstance(t, SNorm):
            return SBool(self.sq <= t.sq)
        return SBool(self._le(t))

    def __lt__(self, t):
        if isinstance(t, SNorm):
            return SBool(self.sq < t.sq)
        return SBool(self._lt(t))

    def __gt__(self, t):
        if isinstance(t, SNorm):
            return SBool(self.sq > t.sq)
        return SBool(z3.Not(self._le(t)))

    def __ge__(self, t):
        if isinstance(t, SNorm):
            return SBool(self.sq >= t.sq)
        return SBool(z3.Not(self._lt(t)))

    def __eq__(self, t):
        if isinstance(t, SNorm):
            return SBool(self.sq == t.sq)
        te = rexpr(t)
        return SBool(z3.And(te >= 0, self.sq == te * te))

    def __ne__(self, t):
        r = self.__eq__(t)
        return ~r

    def __hash__(self):
        raise OutOfModel('hash of symbolic norm')

    def __bool__(self):
        return bool(SBool(self.sq != 0))


class SComplex:
    """complex stand-in: pair of z3 reals"""

    def __init__(self, re=0, im=0):
        if isinstance(re, SComplex):
            self.re, self.im = re.re, re.im
            return
        if isinstance(re, complex):
            re, im0 = re.real, re.imag
            im = im + im0 if not is_sym(im) else im + im0
        self.re = rexpr(re)
        self.im = rexpr(im)
        if self.re is None or self.im is None:
            raise TypeError('complex() argument must be a number')

    @staticmethod
    def of(x):
        if isinstance(x, SComplex):
            return x
        if isinstance(x, complex):
            return SComplex(x.real, x.imag)
        r = rexpr(x)
        if r is None:
            return None
        c = SComplex.__new__(SComplex)
        c.re, c.im = r, z3.RealVal(0)
        return c

    @staticmethod
    def mk(re, im):
        c = SComplex.__new__(SComplex)
        c.re, c.im = re, im
        return c

    @property
    def real(self):
        return SReal(self.re)

    @property
    def imag(self):
        return SReal(self.im)

    def __add__(s, o):
        o = SComplex.of(o)
        return NotImplemented if o is None else SComplex.mk(s.re + o.re, s.im + o.im)
    __radd__ = __add__

    def __sub__(s, o):
        o = SComplex.of(o)
        return NotImplemented if o is None else SComplex.mk(s.re - o.re, s.im - o.im)

    def __rsub__(s, o):
        o = SComplex.of(o)
        return NotImplemented if o is None else SComplex.mk(o.re - s.re, o.im - s.im)

    def __mul__(s, o):
        o = SComplex.of(o)
        if o is None:
            return NotImplemented
        return SComplex.mk(z3.simplify(s.re * o.re - s.im * o.im), z3.simplify(s.re * o.im + s.im * o.re))
    __rmul__ = __mul__

    def __truediv__(s, o):
        if isinstance(o, (SComplex, complex)):
            o = SComplex.of(o)
            den = o.re * o.re + o.im * o.im
            if bool(SBool(den == 0)):
                raise ZeroDivisionError('complex division by zero')
            return SComplex.mk((s.re * o.re + s.im * o.im) / den, (s.im * o.re - s.re * o.im) / den)
        oe = rexpr(o)
        if oe is None:
            return NotImplemented
        if bool(SBool(oe == 0)):
            raise ZeroDivisionError('complex division by zero')
        return SComplex.mk(s.re / oe, s.im / oe)

    def __neg__(s):
        return SComplex.mk(-s.re, -s.im)

    def __pos__(s):
        return s

    def __abs__(s):
        return SNorm(s.re * s.re + s.im * s.im)

    def __eq__(s, o):
        o = SComplex.of(o)
        if o is None:
            return False
        return SBool(z3.And(s.re == o.re, s.im == o.im))

    def __ne__(s, o):
        r = s.__eq__(o)
        return True if r is False else ~r

    def __hash__(s):
        raise OutOfModel('hash of symbolic complex')

    def __bool__(s):
        return bool(SBool(z3.Or(s.re != 0, s.im != 0)))

    def conjugate(s):
        return SComplex.mk(s.re, -s.im)

    def __repr__(s):
        return 'SComplex(%s, %s)' % (z3.simplify(s.re), z3.simplify(s.im))

    def _sx_model_value(self, m):
        from .sym import model_value
        return [model_value(m, SReal(self.re)), model_value(m, SReal(self.im))]


def complex_shim(re=0, im=0):
    if is_sym(re) or is_sym(im) or isinstance(re, SComplex) or isinstance(im, SComplex):
        if isinstance(im, SComplex) or isinstance(re, SComplex):
            return SComplex.of(re) + SComplex.of(im) * SComplex.mk(z3.RealVal(0), z3.RealVal(1))
        return SComplex(re, im)
    return complex(re, im)


class SLookup:
    """a module-level list/tuple indexed by a symbolic int: forks once per distinct value"""

    def __init__(self, table):
        self.table = list(table)
        groups = {}
        for i, v in enumerate(self.table):
            groups.setdefault(id(v) if not isinstance(v, (int, str, type(None))) else ('v', v), []).append(i)
        self.groups = list(groups.values())

    def __len__(self):
        return len(self.table)

    def __iter__(self):
        return iter(self.table)

    def __getitem__(self, i):
        if not _isym(i):
            return self.table[i]
        for idxs in self.groups:
            # ranges of consecutive indices
            conds = []
            run = [idxs[0], idxs[0]]
            for j in idxs[1:]:
                if j == run[1] + 1:
                    run[1] = j
                else:
                    conds.append(z3.And(i.e >= run[0], i.e <= run[1]))
                    run = [j, j]
            conds.append(z3.And(i.e >= run[0], i.e <= run[1]))
            if bool(SBool(z3.Or(*conds))):
                return self.table[idxs[0]]
        raise IndexError('list index out of range')


_SHIM2REAL = {complex_shim: complex, bytes_shim: bytes, bytearray_shim: bytearray, int_shim: int, float_shim: float, srange: range}

BUILTIN_SHIMS = ('bytearray', 'bytes', 'range', 'int', 'float', 'round', 'isinstance', 'divmod', 'sum', 'complex')

STANDARD = {
    'struct': struct_shim, 'array': array_shim, 'bytearray': bytearray_shim, 'bytes': bytes_shim,
    'bytechr': bytechr, 'byteord': byteord, 'bytesjoin': bytesjoin, 'tobytes': tobytes_shim, 'tostr': tostr_shim,
    'BytesIO': BytesIO_shim, 'range': srange, 'int': int_shim, 'float': float_shim, 'round': round_shim,
    'isinstance': isinstance_shim, 'math': math_shim(), 'complex': complex_shim, 'divmod': divmod_shim, 'sum': sum_shim, 'type': type_shim,
}
