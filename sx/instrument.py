"""sx.instrument -- opt-in source instrumentation (symbolic mode only).

A few Python constructs bypass name lookup, so a shim installed in module globals cannot intercept them:
    b"".join(parts)      "".join(parts)       fmt % args  (fmt a string literal)      x in CONTAINER / x not in CONTAINER       {}  (empty dict display, opt-in `dicts`: look-up by == instead of by hash)
For the functions named by a harness the source is read from /repo (inspect), an ast.NodeTransformer rewrites exactly these
constructs into calls of helper functions placed in the function's globals, and the function's __code__ is replaced by the
recompiled code (same file name and line numbers, so message-context detection and tracebacks are unchanged).  The rewrite is
regenerated from the current source on every run; nothing is written to /repo.
"""
import ast, inspect, textwrap, types, hashlib

DONE = {}          # code-owner id -> sha of the source that was rewritten (reported in evidence)


class _T(ast.NodeTransformer):
    def __init__(self, opts):
        self.opts = opts
        self.count = 0

    def visit_Call(self, node):
        self.generic_visit(node)
        f = node.func
        if isinstance(f, ast.Attribute) and f.attr == 'join' and isinstance(f.value, ast.Constant) and len(node.args) == 1 and not node.keywords:
            if isinstance(f.value.value, bytes):
                self.count += 1
                return ast.copy_location(ast.Call(func=ast.Name(id='__sx_bjoin', ctx=ast.Load()), args=[f.value, node.args[0]], keywords=[]), node)
            if isinstance(f.value.value, str) and self.opts.get('strings'):
                self.count += 1
                return ast.copy_location(ast.Call(func=ast.Name(id='__sx_sjoin', ctx=ast.Load()), args=[f.value, node.args[0]], keywords=[]), node)
        return node

    def visit_Dict(self, node):
        self.generic_visit(node)
        # opt-in: an EMPTY dict display becomes an association list whose look-up compares keys with == (a solver fork for symbolic keys),
        # so concrete and symbolic integer keys meet each other, which hashing cannot give
        if self.opts.get('dicts') and not node.keys:
            self.count += 1
            return ast.copy_location(ast.Call(func=ast.Name(id='__sx_dict', ctx=ast.Load()), args=[], keywords=[]), node)
        return node

    def visit_Import(self, node):
        # function-local `import re` -> the regular-expression shim (opt-in)
        if self.opts.get('re') and len(node.names) == 1 and node.names[0].name == 're' and node.names[0].asname is None:
            self.count += 1
            return ast.copy_location(ast.Assign(targets=[ast.Name(id='re', ctx=ast.Store())], value=ast.Name(id='__sx_re', ctx=ast.Load())), node)
        return node

    def visit_BinOp(self, node):
        self.generic_visit(node)
        if self.opts.get('strings') and isinstance(node.op, ast.Mod) and isinstance(node.left, ast.Constant) and isinstance(node.left.value, str):
            self.count += 1
            return ast.copy_location(ast.Call(func=ast.Name(id='__sx_fmt', ctx=ast.Load()), args=[node.left, node.right], keywords=[]), node)
        return node

    def visit_Compare(self, node):
        self.generic_visit(node)
        if self.opts.get('membership') and len(node.ops) == 1 and isinstance(node.ops[0], (ast.In, ast.NotIn)):
            self.count += 1
            call = ast.Call(func=ast.Name(id='__sx_in', ctx=ast.Load()), args=[node.left, node.comparators[0]], keywords=[])
            if isinstance(node.ops[0], ast.NotIn):
                call = ast.Call(func=ast.Name(id='__sx_not', ctx=ast.Load()), args=[call], keywords=[])
            return ast.copy_location(call, node)
        return node


class SDict:
    """insertion-ordered mapping without hashing: keys are compared with == (forks when symbolic).  Only what the instrumented code uses."""

    def __init__(self):
        self._k, self._v = [], []

    def _find(self, key):
        for i, k in enumerate(self._k):
            if k == key:
                return i
        return -1

    def __contains__(self, key):
        return self._find(key) >= 0

    def __getitem__(self, key):
        i = self._find(key)
        if i < 0:
            raise KeyError(key)
        return self._v[i]

    def __setitem__(self, key, value):
        i = self._find(key)
        if i < 0:
            self._k.append(key)
            self._v.append(value)
        else:
            self._v[i] = value

    def get(self, key, default=None):
        i = self._find(key)
        return default if i < 0 else self._v[i]

    def setdefault(self, key, default=None):
        i = self._find(key)
        if i < 0:
            self._k.append(key)
            self._v.append(default)
            return default
        return self._v[i]

    def items(self):
        return list(zip(self._k, self._v))

    def keys(self):
        return list(self._k)

    def values(self):
        return list(self._v)

    def __iter__(self):
        return iter(list(self._k))

    def __len__(self):
        return len(self._k)

    def __bool__(self):
        return bool(self._k)


def _helpers():
    from . import shims as sh

    def bjoin(sep, it):
        return sh.bytesjoin(it, sep)

    def sjoin(sep, it):
        from . import strings
        return strings.sjoin(sep, it)

    def fmt(f, args):
        from . import strings
        return strings.sfmt(f, args)

    def s_in(x, c):
        from . import strings
        return strings.s_in(x, c)

    def s_not(b):
        from .sym import SBool
        if isinstance(b, SBool):
            return ~b
        return not b
    from . import strings as _st
    return {'__sx_dict': SDict, '__sx_bjoin': bjoin, '__sx_sjoin': sjoin, '__sx_fmt': fmt, '__sx_in': s_in, '__sx_not': s_not, '__sx_re': _st.re_shim}


def instrument_function(fn, **opts):
    """rewrite one plain function / method in place.  Returns number of rewritten sites."""
    fn = getattr(fn, '__func__', fn)
    fn = getattr(fn, '__wrapped__', fn)
    if not isinstance(fn, types.FunctionType):
        raise TypeError('cannot instrument %r' % (fn,))
    key = (fn.__module__, fn.__qualname__)
    src_lines, lineno = inspect.getsourcelines(fn)
    src = textwrap.dedent(''.join(src_lines))
    sha = hashlib.sha256(src.encode()).hexdigest()[:16]
    if DONE.get(key) == sha and getattr(fn, '__sx_instrumented__', False):
        return 0
    tree = ast.parse(src)
    fdef = tree.body[0]
    fdef.decorator_list = []
    # annotations are evaluated when the def is re-executed in the (shimmed) module namespace: drop them
    for n in ast.walk(tree):
        if isinstance(n, (ast.FunctionDef, ast.AsyncFunctionDef)):
            n.returns = None
            for a in n.args.posonlyargs + n.args.args + n.args.kwonlyargs + ([n.args.vararg] if n.args.vararg else []) + ([n.args.kwarg] if n.args.kwarg else []):
                a.annotation = None
    tr = _T(opts)
    tree = tr.visit(tree)
    if not tr.count:
        return 0
    ast.fix_missing_locations(tree)
    ast.increment_lineno(tree, lineno - 1)
    if fn.__code__.co_freevars:
        raise TypeError('cannot instrument closure %s (free variables %s)' % (fn.__qualname__, fn.__code__.co_freevars))
    code = compile(tree, fn.__code__.co_filename, 'exec')
    ns = {}
    exec(code, fn.__globals__, ns)
    new = ns[fdef.name]
    fn.__globals__.update(_helpers())
    fn.__code__ = new.__code__
    fn.__sx_instrumented__ = True
    DONE[key] = sha
    return tr.count


def instrument(obj, *names, **opts):
    """instrument functions of a module or class: all plain functions/methods defined there when no names are given"""
    n = 0
    if isinstance(obj, types.FunctionType) or hasattr(obj, '__func__'):
        return instrument_function(obj, **opts)
    items = names or [k for k, v in vars(obj).items()]
    for k in items:
        v = vars(obj).get(k) if not names else getattr(obj, k)
        if isinstance(v, (staticmethod, classmethod)):
            v = v.__func__
        if isinstance(v, types.FunctionType):
            if not names and isinstance(obj, types.ModuleType) and v.__module__ != obj.__name__:
                continue
            try:
                n += instrument_function(v, **opts)
            except (TypeError, OSError, SyntaxError):
                if names:
                    raise
        elif isinstance(v, type) and isinstance(obj, types.ModuleType) and v.__module__ == obj.__name__ and not names:
            n += instrument(v, **opts)
    return n
