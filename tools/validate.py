"""validate MANIFEST.json and every evidence/<id>.json against the schemas in /root/.vp (run with python3-vt)"""
import json, glob, sys, jsonschema
ok = True
jsonschema.validate(json.load(open('/verif/MANIFEST.json')), json.load(open('/root/.vp/MANIFEST.schema.json')))
es = json.load(open('/root/.vp/EVIDENCE.schema.json'))
man = json.load(open('/verif/MANIFEST.json'))
ids = [c['property_id'] for c in man['checks']]
for pid in ids:
    try:
        e = json.load(open('/verif/evidence/%s.json' % pid))
        jsonschema.validate(e, es)
        print(pid, e['tier'], 'violations', e['violations'], 'wall', e['wall_s'])
    except Exception as x:
        ok = False
        print(pid, 'INVALID', str(x)[:200])
sys.exit(0 if ok else 1)
