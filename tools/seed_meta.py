"""(re)write seeded/<id>/meta.json from the agent's description, my own verification record and the detection logs"""
import json, os, glob, re
VERIF = os.path.dirname(os.path.dirname(os.path.abspath(__file__)))
for d in sorted(glob.glob(os.path.join(VERIF, 'seeded', 'C*-*m*'))):
    sid = os.path.basename(d)
    am = json.load(open(os.path.join(d, 'agent_meta.json'))) if os.path.exists(os.path.join(d, 'agent_meta.json')) else {}
    vf = json.load(open(os.path.join(d, 'verify.json'))) if os.path.exists(os.path.join(d, 'verify.json')) else {}
    det = []
    for lg in sorted(glob.glob(os.path.join(d, 'check_*.log'))):
        m = re.match(r'check_(?:(C\d\d)_)?(\w+)\.log', os.path.basename(lg))
        prop = m.group(1) or sid[:3]
        tier = m.group(2)
        txt = open(lg).read()
        vio = sorted(set(re.findall(r'VIOLATION property=\S+ replay=\S*/([\w]+)-[0-9a-f]+\.json', txt)))
        rc = re.findall(r'rc=(\d)', txt)
        det.append(dict(check=prop, tier=tier, exit=int(rc[-1]) if rc else None, violated_kernels=vio,
                        inconclusive=len(re.findall(r'^INCONCLUSIVE', txt, re.M))))
    base = []
    for lg in sorted(glob.glob(os.path.join(d, 'base_*.log'))):
        m = re.match(r'base_(C\d\d)_(\w+)\.log', os.path.basename(lg))
        txt = open(lg).read()
        vio = sorted(set(re.findall(r'VIOLATION property=\S+ replay=\S*/([\w]+)-[0-9a-f]+\.json', txt)))
        rc = re.findall(r'rc=(\d)', txt)
        base.append(dict(check=m.group(1), tier=m.group(2), exit=int(rc[-1]) if rc else None, violated_kernels=vio))
    caught = [x for x in det if x['exit'] == 1]
    meta = dict(
        id=sid, property=am.get('property', sid[:3]), files=am.get('files'),
        what_changed=am.get('summary'), needs_to_manifest=am.get('needs_to_manifest'), why_tests_pass=am.get('why_tests_pass'),
        origin='written by an independent sub-agent that saw only the property text and its own scratch worktree',
        confirmed_by_me=dict(
            how='tools/verify_seed.sh: fresh scratch worktree of /repo HEAD; demo.py on the clean tree; git apply patch.diff; demo.py again; '
                'full test-suite (pytest -q -x, PYTHONPATH=<worktree>/Lib) with the patch applied; worktree removed',
            demo_exit_clean=vf.get('demo_clean_rc'), demo_exit_mutated=vf.get('demo_mutated_rc'),
            suite_with_patch='passed (no failures)' if vf.get('tests_passed_line') and not vf.get('tests_failed_line') else 'see tests_mutated.log'),
        round=3 if '-r3' in sid else 2 if '-r2' in sid else 1,
        checks_run=det,
        baseline_before_round2_extensions=(dict(commit='c14225a', runs=base, detected=any(b['exit'] == 1 for b in base)) if base else None),
        baseline_before_round3_extensions=(json.load(open(os.path.join(d, 'baseline3.json'))) if os.path.exists(os.path.join(d, 'baseline3.json')) else None),
        detected=bool(caught),
        detected_by=sorted({'%s:%s' % (x['check'], k) for x in caught for k in x['violated_kernels']}))
    json.dump(meta, open(os.path.join(d, 'meta.json'), 'w'), indent=1)
    print(sid, 'DETECTED' if caught else 'missed', meta['detected_by'][:3])
