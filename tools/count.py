"""dev helper: explore one kernel task single-process and print counts.  usage: count.py <harness module> <kernel id> '<json params>' [max paths]"""
import sys, time
sys.path.insert(0, '/verif')
from sx import api
api.use('sym')
import importlib, json
mod, kid = sys.argv[1], sys.argv[2]
importlib.import_module('harness.' + mod)
from sx import engine
params = json.loads(sys.argv[3]) if len(sys.argv) > 3 else {}
t = time.time()
r = engine.explore_subtree(kid, params, [], {}, dict(timeout_ms=20000), int(sys.argv[4]) if len(sys.argv) > 4 else 200, 600, False)
print('paths', r['paths'], 'left', len(r['leftover']), 'q', r['queries'], 'solver', round(r['solver_s'], 1), 'wall', round(time.time() - t, 1),
      'oom', r['oom'][:3], 'unk', r['unknown'][:3], 'maxdec', r['max_decisions'], 'labels', r['labels'])
for c in r['cex'][:3]:
    print('CEX', c['label'], c['inputs'], c.get('detail'))
    print(c.get('tb', ''))
