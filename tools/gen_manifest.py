"""regenerate /verif/MANIFEST.json from the table below (keeps the file valid and the not_applicable list current)"""
import json, os

VERIF = os.path.dirname(os.path.dirname(os.path.abspath(__file__)))

LEVEL = ("bounded symbolic model checking of the real functions: the unmodified code from /repo/Lib is executed on z3 proxy values, every "
         "branch is decided by the solver, and on every path the negated obligation is sent to z3 (unsat on all paths = holds for every "
         "value inside the stated bounds; sat = a concrete counterexample, replayed on the un-shimmed code under /venv/bin/python before "
         "it is reported). ")

NOTE = ("Trusted base: z3 5.1; the proxy values and the environment shims listed per kernel in the evidence (struct/array/bytes/BytesIO/"
        "range/int/round/math stand-ins, validated on every run by concolic fidelity replays against the un-shimmed code); float "
        "arithmetic modelled as exact real arithmetic (R-float). Claims are kernel-level and bounded: evidence/<id>.json lists per "
        "kernel the functions encoded, the bounds, the assumptions and what is outside the claim.")

CLAIMED = {
    'C01': ('bytes->object->bytes->object->bytes generations of table codecs on symbolic bytes (hmtx, loca, glyf simple glyphs and components, kern, Coverage/ClassDef through the real OTTableReader/Writer, CFF INDEX header arithmetic); raw pass-through of untouched tables through TTFont.save incl. WOFF with a stubbed compressor', '3/C01 and section 8'),
    'C02': ('object->bytes->object round trips of hmtx, glyf coordinates (3 packers) and components, loca, kern, gvar tuple stores and packed points, cmap formats 2/4/6/12/13 with symbolic glyph ids and format 14 with symbolic base characters, GSUB SingleSubst, Coverage, ClassDef and the COLR ClipList under a symbolic glyph-id permutation, on symbolic content, cross-checked by readers written from the OpenType spec inside the harness', '3/C02 and section 8'),
    'C04': ('container invariants (directory order, offsets, padding, checksums incl. whole-file 0xB1B0AFBA, search fields) of files written by SFNTWriter/TTFont.save incl. WOFF for symbolic table contents; glyph bounding boxes = otRound of true min/max, composite boxes over symbolic component points and offsets; WOFF2 point triplets vs the spec table; hhea/maxp/head derived fields vs the OpenType definitions', '3/C04 and section 8'),
    'C05': ('Type 2 charstring interpreter (38 operator forms, hints, width) vs an in-harness TN5177 interpreter; composite glyph assembly; normalisation, avar map and tent scalars; inferred gvar deltas; on-the-fly glyph instances (gvar + IUP) vs spec formulas, on symbolic reals', '3/C05 and section 8'),
    'C06': ('subtable splitting, overflow resolution and GPOS compaction preserve the pair-positioning lookup result for every glyph pair and all symbolic values; OTTableWriter offset packing with symbolic sizes raises OTLOffsetOverflowError exactly when a 16-bit offset does not fit; GPOS compile->decompile', '3/C06 and section 8'),
    'C07': ('subset_glyphs of PairPos/SinglePos/MarkBasePos with a symbolic retained glyph set and symbolic values keeps every retained record; GSUB glyph closure covers everything an in-harness shaper produces; anchors keep variation devices without hinting; CFF seac closure; VarStore index subsetting keeps values', '3/C07 and section 8'),
    'C08': ('tuple-variation rebasing/merging/rounding and feature-variation condition ranges evaluate like the original at every location inside the new limits; hmtx/vmtx from symbolic phantom points in glyf._setCoordinates; flattening glyph-pair subtables before instancing keeps the first record of a repeated pair', '3/C08 and section 8'),
    'C09': ('rebaseTent over all real tents x limits x locations; VariationModel on every lattice location set; IUP optimisation within tolerance - exact rational arithmetic', '3/C09'),
    'C10': ('sparse sub-models (incl. after reorderMasters) reproduce present masters exactly; master->deltas->ItemVariationStore->instancer within 1/2 at master locations; the avar map emitted for a symbolic axis map sends every knot to its designspace value; merger pair look-up follows the OpenType lookup rule; flattening class-kerning subtables keeps every pair value; CFF2 region indices follow their supports across sparse sub-models', '3/C10 and section 8'),
    'C12': ('specialise/generalise preserve the drawn path for all operand values; stack limit and arities; byte-code and width round trips; remove_hints/desubroutinize/subroutine pruning keep the outline; CFF2 blend packing keeps operands and deltas within the 513-entry stack', '3/C12 and section 8'),
    'C13': ('tolerance contract of cu2qu/qu2cu on concrete curve families x symbolic tolerance(s) (every tolerance case the code distinguishes; sampled deviation <= tolerance; equal segment counts; per-curve tolerances); exact subdivision/elevation algebra on symbolic control points; glyph segment collection is connected; Cu2QuPen on consecutive curves converts every segment from its own start point', '3/C13 and section 8'),
    'C14': ('reverse/area, segment<->point protocol, record/replay, transform pen and Transform algebra, rounding pen, super-bezier consistency, TrueType glyph building with implied-point dropping: canonical-outline equality over symbolic coordinates for enumerated contour shapes', '3/C14 and section 8'),
    'C15': ('every varint/operand/packed-run/eexec/sstruct/fixed-point codec is inverse to its decoder over its whole domain (bounded per kernel); tag <-> identifier/XML-name codecs over all 4-character printable-ASCII tags; IFT sparse bit sets on windows of small integer sets', '3/C15 and section 8'),
    'C16': ("compile twice -> identical bytes and unchanged content for the table codecs; TTFont.save twice -> identical bytes, flavorData untouched, WOFF version follows the current head; TTCollection.save restores recalcTimestamp flags and stamps the stubbed clock's instant; hash-seed/process/time-zone independence is outside the technique", '3/C16 and section 8'),
    'C17': ('scale_upem: every design-unit value of an in-memory font (head, hhea, OS/2, post, hmtx, glyf, gvar incl. empty glyphs, kern, GPOS incl. NULL anchors) scaled exactly once within 1/2, everything else untouched; reorderGlyphs under a symbolic permutation keeps coverage-indexed records attached to their glyph names', '3/C17 and section 8'),
    'C18': ("cmap merge with symbolic code points: first font wins, later duplicates recorded; merged glyph names pairwise different for symbolic names; feature lists keep every input's lookups; glyf merge resolves composites against their own font; CFF merge keeps every advance width for symbolic default/nominal widths; LangSys feature indices (required feature, index 0 included) become references", '3/C18 and section 8'),
    'C19': ('generated file names (both copies of userNameToFileName, symbolic printable-ASCII characters, long fillers, clash path, name sequences) are legal, <= 255 characters, not reserved, unique ignoring case; axis map forward/backward are inverse on monotone maps', '3/C19 and section 8'),
    'C20': ('only TTLibError escapes the sfnt/TTC/WOFF header+directory parser for every truncation length and content; undecodable tables kept verbatim; a failed save never opens the destination (symbolic crash point)', '3/C20'),
}

NOT_APPLICABLE = {
    'C03': 'TTX dump/import is text formatting plus the expat C parser; no bounded integer/real kernel carries the property (DESIGN.md section 4)',
    'C11': 'quantified over programs of a text grammar with a shaping engine as oracle; an encoding would re-implement the language and a shaper (DESIGN.md section 4)',
}

NOT_BUILT = 'check not built yet in this session (planned in DESIGN.md section 3); not claimed until its quick and thorough commands have run end-to-end'


def main():
    have = sorted({os.path.basename(p)[:3] for p in os.listdir(os.path.join(VERIF, 'harness')) if p[:1] == 'C' and p.endswith('.py')})
    enabled = [l.strip() for l in open(os.path.join(VERIF, 'tools', 'enabled.txt')) if l.strip() and not l.startswith('#')]
    checks = []
    na = []
    for pid in ['C%02d' % i for i in range(1, 21)]:
        if pid in NOT_APPLICABLE:
            na.append(dict(property_id=pid, reason=NOT_APPLICABLE[pid]))
            continue
        if pid not in enabled or pid not in have:
            na.append(dict(property_id=pid, reason=NOT_BUILT))
            continue
        text, ref = CLAIMED[pid]
        checks.append(dict(
            property_id=pid,
            quick_cmd='./check %s --tier quick' % pid,
            thorough_cmd='./check %s --tier thorough' % pid,
            evidence_file='/verif/evidence/%s.json' % pid,
            replay_cmd_template='./check %s --replay {path}' % pid,
            engine='sx',
            level_claimed=dict(category='model_checking', text=LEVEL + 'Decided here: ' + text + '.', design_ref='DESIGN.md section ' + ref),
            level_note=NOTE,
            technique='bounded symbolic execution of the real Python functions with z3 (SMT) deciding every path; counterexamples replayed concretely'))
    m = dict(
        version=1,
        setup_cmd="python3-vt -c 'import z3' && PYTHONPATH=/repo/Lib:/verif python3-vt -m selftest",
        hooks=dict(guard='FONTTOOLS_VERIF',
                   enable='no source hooks: checks import the unmodified modules from /repo/Lib (PYTHONPATH=/repo/Lib) and replace names in module globals at run time',
                   baseline_off_cmd='cd /repo && /venv/bin/python -m pytest -ra -q -p no:cacheprovider --timeout=900 --continue-on-collection-errors',
                   source_commits=[], add_only=True),
        engines=[dict(name='sx', path='/verif/sx', serves_properties=[c['property_id'] for c in checks],
                      kind_free_text='own path-forking symbolic executor for Python: proxy values over z3 (64-bit bit-vectors with interval guard, '
                                     'Int, Real), environment shims for C builtins, deterministic re-execution, 16-process work distribution, '
                                     'concrete replay of every counterexample and of sampled path models on the un-shimmed code')],
        checks=checks,
        not_applicable=na,
        notes='genuine defects found by the checks and repaired in /repo are listed in /verif/known_findings.json (status fixed); '
              'seeded breaking changes used to test the checks are under /verif/seeded with the results in DESIGN.md section 8')
    json.dump(m, open(os.path.join(VERIF, 'MANIFEST.json'), 'w'), indent=1)
    print('checks:', [c['property_id'] for c in checks])


if __name__ == '__main__':
    main()
