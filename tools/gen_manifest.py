"""regenerate /verif/MANIFEST.json from the table below (keeps the file valid and the not_applicable list current)"""
import json, os

VERIF = os.path.dirname(os.path.dirname(os.path.abspath(__file__)))

LEVEL = ("bounded symbolic model checking of the real functions: the unmodified code from /repo/Lib is executed on z3 proxy values, every "
         "branch is decided by the solver, and on every path the negated obligation is sent to z3 (unsat on all paths = holds for every "
         "value inside the stated bounds; sat = a concrete counterexample, replayed on the un-shimmed code under /venv/bin/python before "
         "it is reported). ")

NOTE = ("Trusted base: z3 5.1; the proxy values and the environment shims listed per kernel in the evidence (struct/array/bytes/BytesIO/"
        "range/int/round/math stand-ins, validated on every run by concolic fidelity replays against the un-shimmed code); float "
        "arithmetic modelled as exact real arithmetic (R-float). Claims are kernel-level and bounded: evidence/<id>.json lists per "
        "kernel the functions encoded, the bounds, the assumptions and what is outside the claim.")

CLAIMED = {
    'C01': ('bytes->object->bytes fixed point of table codecs on symbolic bytes; raw pass-through of untouched tables through TTFont.save', '3/C01'),
    'C02': ('object->bytes->object round trips of hmtx, glyf coordinates/components, loca, cmap, TupleVariation on symbolic content, cross-checked by an in-harness spec reader', '3/C02'),
    'C04': ('container invariants (directory order, offsets, padding, checksums, search fields) of files written by SFNTWriter/TTFont.save for symbolic table contents; derived bbox/hhea/maxp fields', '3/C04'),
    'C05': ('Type 2 charstring interpreter, composite glyph transforms, tent scalars, normalisation and IUP against in-harness spec models on symbolic reals', '3/C05'),
    'C06': ('OTTableWriter offset packing with symbolic sizes (overflow raises instead of wrapping); GPOS/GSUB compile->decompile with symbolic values; subtable splitting preserves lookups', '3/C06'),
    'C07': ('Coverage/ClassDef/lookup subset_glyphs kernels with a symbolic retained-glyph set; VarStore index remapping', '3/C07'),
    'C08': ('tuple-variation rebasing/merging/rounding and feature-variation condition ranges evaluate like the original at every location inside the new limits', '3/C08'),
    'C09': ('rebaseTent over all real tents x limits x locations; VariationModel on every lattice location set; IUP optimisation within tolerance - exact rational arithmetic', '3/C09'),
    'C10': ('master -> deltas -> store -> instancer reproduces masters; designspace axis maps normalise min/default/max to -1/0/+1', '3/C10'),
    'C12': ('specialise/generalise preserve the drawn path for all operand values; stack limit and arities; byte-code and width round trips', '3/C12'),
    'C13': ('exact-algebra half only: subdivision exactness, end points, equal segment counts, elevation; the tolerance bound is outside reach (measured)', '3/C13'),
    'C14': ('reverse/area/point<->segment/transform/rounding pen identities over symbolic coordinates for enumerated contour shapes', '3/C14'),
    'C15': ('every varint/operand/packed-run/eexec/sstruct/fixed-point codec is inverse to its decoder over its whole domain', '3/C15'),
    'C16': ('compile is idempotent and does not disturb object state on the C02/C04 kernels; hash-seed/process independence is outside the technique', '3/C16'),
    'C17': ('scale_upem: every design-unit field scaled once within 1/2, nothing else touched; glyph reordering is outside the claim', '3/C17'),
    'C18': ('cmap merge with symbolic code points: first font wins, duplicates recorded; merge policy arithmetic', '3/C18'),
    'C19': ('generated file names are legal, <= 255 characters and unique ignoring case (ASCII); axis map forward/backward are inverse', '3/C19'),
    'C20': ('only TTLibError escapes the sfnt/TTC/WOFF header+directory parser for every truncation length and content; undecodable tables kept verbatim; a failed save never opens the destination (symbolic crash point)', '3/C20'),
}

NOT_APPLICABLE = {
    'C03': 'TTX dump/import is text formatting plus the expat C parser; no bounded integer/real kernel carries the property (DESIGN.md section 4)',
    'C11': 'quantified over programs of a text grammar with a shaping engine as oracle; an encoding would re-implement the language and a shaper (DESIGN.md section 4)',
}

NOT_BUILT = 'check not built yet in this session (planned in DESIGN.md section 3); not claimed until its quick and thorough commands have run end-to-end'


def main():
    have = sorted({os.path.basename(p)[:3] for p in os.listdir(os.path.join(VERIF, 'harness')) if p[:1] == 'C' and p.endswith('.py')})
    enabled = [l.strip() for l in open(os.path.join(VERIF, 'tools', 'enabled.txt')) if l.strip() and not l.startswith('#')]
    checks = []
    na = []
    for pid in ['C%02d' % i for i in range(1, 21)]:
        if pid in NOT_APPLICABLE:
            na.append(dict(property_id=pid, reason=NOT_APPLICABLE[pid]))
            continue
        if pid not in enabled or pid not in have:
            na.append(dict(property_id=pid, reason=NOT_BUILT))
            continue
        text, ref = CLAIMED[pid]
        checks.append(dict(
            property_id=pid,
            quick_cmd='./check %s --tier quick' % pid,
            thorough_cmd='./check %s --tier thorough' % pid,
            evidence_file='/verif/evidence/%s.json' % pid,
            replay_cmd_template='./check %s --replay {path}' % pid,
            engine='sx',
            level_claimed=dict(category='model_checking', text=LEVEL + 'Decided here: ' + text + '.', design_ref='DESIGN.md section ' + ref),
            level_note=NOTE,
            technique='bounded symbolic execution of the real Python functions with z3 (SMT) deciding every path; counterexamples replayed concretely'))
    m = dict(
        version=1,
        setup_cmd="python3-vt -c 'import z3' && PYTHONPATH=/repo/Lib:/verif python3-vt -m selftest",
        hooks=dict(guard='FONTTOOLS_VERIF',
                   enable='no source hooks: checks import the unmodified modules from /repo/Lib (PYTHONPATH=/repo/Lib) and replace names in module globals at run time',
                   baseline_off_cmd='cd /repo && /venv/bin/python -m pytest -ra -q -p no:cacheprovider --timeout=900 --continue-on-collection-errors',
                   source_commits=[], add_only=True),
        engines=[dict(name='sx', path='/verif/sx', serves_properties=[c['property_id'] for c in checks],
                      kind_free_text='own path-forking symbolic executor for Python: proxy values over z3 (64-bit bit-vectors with interval guard, '
                                     'Int, Real), environment shims for C builtins, deterministic re-execution, 16-process work distribution, '
                                     'concrete replay of every counterexample and of sampled path models on the un-shimmed code')],
        checks=checks,
        not_applicable=na,
        notes='genuine defects found by the checks and repaired in /repo are listed in /verif/known_findings.json (status fixed); '
              'seeded breaking changes used to test the checks are under /verif/seeded with the results in DESIGN.md section 8')
    json.dump(m, open(os.path.join(VERIF, 'MANIFEST.json'), 'w'), indent=1)
    print('checks:', [c['property_id'] for c in checks])


if __name__ == '__main__':
    main()
