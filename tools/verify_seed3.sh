#!/bin/sh
# usage: verify_seed2.sh <Cxx> <k>   -- round-3 seeds live in /tmp/seed3/<Cxx>/m<k>; kept as seeded/<Cxx>-r3m<k>
ID=$1; K=$2
SRC=/tmp/seed3/$ID/m$K
DST=/verif/seeded/$ID-r3m$K
mkdir -p $DST
cp $SRC/patch.diff $SRC/demo.py $DST/ 2>/dev/null
cp $SRC/meta.json $DST/agent_meta.json 2>/dev/null
WT=/tmp/vseed3-$ID-$K
git -C /repo worktree remove --force $WT 2>/dev/null
git -C /repo worktree add --detach $WT HEAD >/dev/null 2>&1
cd $WT
PYTHONPATH=$WT/Lib /venv/bin/python $DST/demo.py > $DST/demo_clean.log 2>&1; CLEAN=$?
git apply $DST/patch.diff || { echo "patch does not apply"; cd /; git -C /repo worktree remove --force $WT; exit 9; }
PYTHONPATH=$WT/Lib /venv/bin/python $DST/demo.py > $DST/demo_mutated.log 2>&1; MUT=$?
PYTHONPATH=$WT/Lib /venv/bin/python -m pytest -q -p no:cacheprovider -x -n 4 2>&1 | tail -3 > $DST/tests_mutated.log
TESTS=$(grep -c " passed" $DST/tests_mutated.log); FAILED=$(grep -c " failed" $DST/tests_mutated.log)
cd /; git -C /repo worktree remove --force $WT
echo "{\"id\": \"$ID-r3m$K\", \"demo_clean_rc\": $CLEAN, \"demo_mutated_rc\": $MUT, \"tests_passed_line\": $TESTS, \"tests_failed_line\": $FAILED}" > $DST/verify.json
cat $DST/verify.json
