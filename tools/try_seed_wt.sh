#!/bin/sh
# usage: try_seed_wt.sh <seed-dir-name> <Cxx> [tier] [extra check args]
# like try_seed.sh but in a scratch worktree of /repo (so /repo itself stays untouched and several seeds can run side by side)
S=$1; D=/verif/seeded/$1; P=$2; T=${3:-quick}; shift; shift; shift
WT=/tmp/ts-$S-$P
git -C /repo worktree remove --force $WT 2>/dev/null
git -C /repo worktree add --detach $WT HEAD >/dev/null 2>&1 || exit 9
trap "git -C /repo worktree remove --force $WT 2>/dev/null" EXIT INT TERM HUP
git -C $WT apply $D/patch.diff || exit 9
cd /verif
SX_REPO_LIB=$WT/Lib PYTHONPATH=$WT/Lib:/verif PYTHONHASHSEED=0 PYTHONDONTWRITEBYTECODE=1 SX_JOBS=${SX_JOBS:-8} python3-vt -m sx.main $P --tier $T --no-evidence "$@" > $D/check_${P}_$T.log 2>&1; RC=$?
echo "$S $P $T rc=$RC $(grep -E '^VIOLATION' $D/check_${P}_$T.log | sed 's/.*replays\/[^/]*\///; s/-[0-9a-f]*\.json//' | sort -u | tr '\n' ' ')"
