#!/bin/sh
# usage: run_all.sh quick|thorough [props...]   -- run every enabled check in /verif against /repo, one line per check
T=${1:-quick}; shift
PROPS=${@:-$(cat /verif/tools/enabled.txt)}
for P in $PROPS; do
  S=$(date +%s)
  /verif/check $P --tier $T > /tmp/run_${P}_$T.log 2>&1; RC=$?
  E=$(date +%s)
  echo "$P $T rc=$RC $((E-S))s $(grep -E "^$P tier" /tmp/run_${P}_$T.log | cut -c1-160)"
  grep -E "^(VIOLATION|INCONCLUSIVE|HARNESS)" /tmp/run_${P}_$T.log | head -3 | cut -c1-300
done
