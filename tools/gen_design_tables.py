"""regenerate the machine-written blocks of DESIGN.md (kernel inventory, seeded-change table) from the harness registry and seeded/*/meta.json"""
import sys, os, json, glob, re
VERIF = os.path.dirname(os.path.dirname(os.path.abspath(__file__)))
sys.path.insert(0, VERIF)
os.environ.setdefault('PYTHONHASHSEED', '0')
from sx import api
api.use('sym')
import importlib
for p in sorted(glob.glob(os.path.join(VERIF, 'harness', 'C*_*.py'))):
    importlib.import_module('harness.' + os.path.basename(p)[:-3])

out = []
props = sorted({k.prop for k in api.KERNELS.values()})
for prop in props:
    ks = [k for k in api.KERNELS.values() if k.prop == prop]
    out.append('#### %s — %d kernels, %d quick tasks, %d thorough tasks\n' % (prop, len(ks), sum(len(k.quick) for k in ks), sum(len(k.thorough) for k in ks)))
    for k in sorted(ks, key=lambda k: k.name):
        d = k.doc
        out.append('* **%s** — %s' % (k.name, d['bounds'].strip()))
        if d['assumptions']:
            out.append('  * assumes: ' + '; '.join(d['assumptions']))
        if d['outside']:
            out.append('  * outside: ' + '; '.join(d['outside']))
    out.append('')
inv = '\n'.join(out)

rows = ['| seeded change | what it breaks (one line) | needs | caught by (quick tier) | baseline (checks as they were before that round) |', '|---|---|---|---|---|']
for d in sorted(glob.glob(os.path.join(VERIF, 'seeded', 'C*-*m*'))):
    m = json.load(open(os.path.join(d, 'meta.json')))
    what = (m.get('what_changed') or '').split('. ')[0][:170].replace('|', '/').replace('\n', ' ')
    needs = (m.get('needs_to_manifest') or '')[:110].replace('|', '/').replace('\n', ' ')
    by = ', '.join(m['detected_by'][:3]) if m['detected'] else '**missed**'
    b = m.get('baseline_before_round2_extensions') or m.get('baseline_before_round3_extensions')
    rows.append('| %s | %s | %s | %s | %s |' % (m['id'], what, needs, by, '' if not b else ('caught' if b['detected'] else 'missed')))
tbl = '\n'.join(rows)

p = os.path.join(VERIF, 'DESIGN.md')
s = open(p).read()
for tag, body in (('KERNELS', inv), ('SEEDS', tbl)):
    a, b = '<!-- BEGIN %s -->' % tag, '<!-- END %s -->' % tag
    if a in s:
        s = s[:s.index(a) + len(a)] + '\n' + body + '\n' + s[s.index(b):]
open(p, 'w').write(s)
print('kernels', len(api.KERNELS), 'seeds', len(rows) - 2)
