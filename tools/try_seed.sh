#!/bin/sh
# usage: try_seed.sh <seed-dir-name> <Cxx> [tier] [extra check args]  -- apply patch to /repo, run the check, undo
D=/verif/seeded/$1; P=$2; T=${3:-quick}; shift; shift; shift
git -C /repo diff --quiet || { echo "/repo not clean"; exit 9; }
git -C /repo apply $D/patch.diff || exit 9
trap "git -C /repo checkout -- ." EXIT INT TERM HUP
/verif/check $P --tier $T --no-evidence "$@" > $D/check_${P}_$T.log 2>&1; RC=$?
git -C /repo checkout -- .
echo "$D $P $T rc=$RC"; grep -E "^(VIOLATION|INCONCLUSIVE|KNOWN)" $D/check_${P}_$T.log | head -5
