"""C15 kernels: uint32var, packed point numbers / delta runs, CFF/T2/T1 operands, fixed point, eexec, sstruct."""
from sx.api import kernel, shim_all, V, ob, observe, eq, conj, disj, shim, shim_defaults, assume, tobytes, symbolic, seq_eq, absdiff_le, le
import fontTools.ttLib.tables.otTables as OT
import fontTools.ttLib.tables.TupleVariation as TVm
import fontTools.misc.psCharStrings as PS
import fontTools.misc.fixedTools as FX
import fontTools.misc.roundTools as RT
import fontTools.misc.eexec as EE
import fontTools.misc.sstruct as SS
import fontTools.misc.textTools as TT

TV = TVm.TupleVariation
shim_all(OT)
shim_all(TVm)
shim_all(PS)
shim_all(RT)
shim_all(EE)
shim_all(SS)
for _f in (PS.encodeIntCFF, PS.encodeIntT1, PS.encodeIntT2):
    shim_defaults(_f, bytechr='bytechr', pack='struct.pack', unpack='struct.unpack')
shim_defaults(PS.encodeFixed, pack='struct.pack')


# ---------------------------------------------------------------- uint32var
@kernel('C15', funcs=['ttLib/tables/otTables.py:_write_uint32var', 'ttLib/tables/otTables.py:_read_uint32var'],
        bounds='all v in [0, 2^32-1] (the documented domain: "uint32var")', shims=['struct'])
def uint32var_roundtrip():
    v = V.int('v', 0, 2 ** 32 - 1)
    data = OT._write_uint32var(v)
    observe('encoded', tobytes(data))
    r, i = OT._read_uint32var(data, 0)
    ob('roundtrip', eq(r, v))
    ob('consumed', i == len(data))


@kernel('C15', funcs=['ttLib/tables/otTables.py:_read_uint32var', 'ttLib/tables/otTables.py:_write_uint32var'],
        bounds='all 5-byte inputs (every byte symbolic): the value read re-encodes to a string that reads back equal', shims=['struct'])
def uint32var_decode():
    data = V.bytes('data', 5)
    r, i = OT._read_uint32var(data, 0)
    observe('value', r)
    assume(r < 2 ** 32)
    enc = OT._write_uint32var(r)
    r2, j = OT._read_uint32var(enc, 0)
    ob('reencode-same-value', eq(r2, r))
    ob('reencode-not-longer', len(enc) <= i)


# ---------------------------------------------------------------- packed points
def _points_roundtrip(pts):
    data = TV.compilePoints(list(pts))
    observe('encoded', tobytes(data))
    r, pos = TV.decompilePoints_(0x10000, data if symbolic() else bytes(data), 0, 'gvar')
    r = list(r)
    ob('count', len(r) == len(pts))
    ob('consumed', pos == len(data))
    if len(r) == len(pts):
        ob('roundtrip', seq_eq(r, pts))


@kernel('C15', funcs=['ttLib/tables/TupleVariation.py:TupleVariation.compilePoints', 'ttLib/tables/TupleVariation.py:TupleVariation.decompilePoints_'],
        bounds='n in 1..4 strictly increasing point numbers, each in [0, 65535], all symbolic (byte/word run class of every delta is a solver fork)',
        shims=['array', 'bytearray', 'struct'], quick=[dict(n=n) for n in (1, 2, 3)], thorough=[dict(n=n) for n in (1, 2, 3, 4, 5)])
def points_roundtrip(n):
    pts = V.ints('p', n, 0, 0xFFFF)
    for a, b in zip(pts, pts[1:]):
        assume(a < b)
    _points_roundtrip(pts)


@kernel('C15', funcs=['ttLib/tables/TupleVariation.py:TupleVariation.compilePoints', 'ttLib/tables/TupleVariation.py:TupleVariation.decompilePoints_'],
        bounds='shape family: n points start + d*i (+ gap for i >= n//2) with symbolic start in [0,300], symbolic gap in [0,400] (so the '
               'delta in the middle of the run crosses the byte/word boundary) and concrete step d in {1,255,256}; n around the limits '
               '127/128 (count header width) and 128/129 (run length limit)',
        shims=['array', 'bytearray', 'struct'], quick=[dict(n=n, d=d) for n in (127, 128, 129) for d in (1, 256)],
        thorough=[dict(n=n, d=d) for n in (2, 126, 127, 128, 129, 130, 200, 255, 256, 257) for d in (1, 255, 256) if d * (n - 1) <= 0xFFFF])
def points_family(n, d):
    start = V.int('start', 0, 300)
    gap = V.int('gap', 0, 400)
    assume(start + d * (n - 1) + gap <= 0xFFFF)
    pts = [start + d * i + (gap if i >= n // 2 else 0) for i in range(n)]
    _points_roundtrip(pts)


# ---------------------------------------------------------------- packed deltas
def _deltas_roundtrip(ds, optimizeSize=True):
    data = TV.compileDeltaValues_(list(ds), optimizeSize=optimizeSize)
    observe('encoded', tobytes(data))
    r, pos = TV.decompileDeltas_(len(ds), data if symbolic() else bytes(data), 0)
    ob('count', len(r) == len(ds))
    ob('consumed', pos == len(data))
    if len(r) == len(ds):
        ob('roundtrip', seq_eq(r, ds))
    return data


@kernel('C15', funcs=['ttLib/tables/TupleVariation.py:TupleVariation.compileDeltaValues_', 'ttLib/tables/TupleVariation.py:TupleVariation.decompileDeltas_',
                       'ttLib/tables/TupleVariation.py:TupleVariation.encodeDeltaRunAsZeroes_', 'ttLib/tables/TupleVariation.py:TupleVariation.encodeDeltaRunAsBytes_',
                       'ttLib/tables/TupleVariation.py:TupleVariation.encodeDeltaRunAsWords_', 'ttLib/tables/TupleVariation.py:TupleVariation.encodeDeltaRunAsLongs_'],
        bounds='n in 1..3 (quick) / 1..4 (thorough) fully symbolic int32 deltas; optimizeSize in {True, False}',
        shims=['array', 'bytearray', 'struct'],
        quick=[dict(n=n, opt=o) for n in (1, 2, 3) for o in (True, False)],
        thorough=[dict(n=n, opt=o) for n in (1, 2, 3, 4) for o in (True, False)])
def deltas_roundtrip(n, opt):
    ds = V.ints('d', n, -2 ** 31, 2 ** 31 - 1)
    _deltas_roundtrip(ds, opt)


@kernel('C15', funcs=['ttLib/tables/TupleVariation.py:TupleVariation.compileDeltaValues_', 'ttLib/tables/TupleVariation.py:TupleVariation.decompileDeltas_'],
        bounds='shape family [a]*n + [b] + [c]*m, a,b,c symbolic int32, n around the run-length limit 64 and its multiple 128, m in {0,1,2}',
        shims=['array', 'bytearray', 'struct'],
        quick=[dict(n=n, m=m) for n in (63, 64, 65) for m in (0, 1)],
        thorough=[dict(n=n, m=m) for n in (1, 62, 63, 64, 65, 66, 127, 128, 129) for m in (0, 1, 2)])
def deltas_family(n, m):
    a = V.int('a', -2 ** 31, 2 ** 31 - 1)
    b = V.int('b', -2 ** 31, 2 ** 31 - 1)
    c = V.int('c', -2 ** 31, 2 ** 31 - 1)
    _deltas_roundtrip([a] * n + [b] + [c] * m)


# ---------------------------------------------------------------- CFF / T2 / T1 integer operands
class _Dec:
    """minimal decompiler stand-in for the read_* operand readers (they only use `self` for operators)"""


def _decode_operand(table, data):
    b0 = data[0]
    if symbolic():
        from sx.shims import SLookup
        table = SLookup(table)
    handler = table[b0]
    return handler(_Dec(), b0, data, 1)


@kernel('C15', funcs=['misc/psCharStrings.py:getIntEncoder.<locals>.encodeInt', 'misc/psCharStrings.py:read_byte', 'misc/psCharStrings.py:read_smallInt1',
                       'misc/psCharStrings.py:read_smallInt2', 'misc/psCharStrings.py:read_shortInt', 'misc/psCharStrings.py:read_longInt'],
        bounds='fmt=t2: all ints in [-32768, 32767]; fmt=cff, t1: all ints in [-2^31, 2^31-1]; decoded through the real operand dispatch tables',
        shims=['struct', 'bytechr', 'byteord', 'SLookup(t2OperandEncoding)'], quick=[dict(fmt=f) for f in ('t2', 'cff', 't1')])
def cff_int_roundtrip(fmt):
    if fmt == 't2':
        v = V.int('v', -32768, 32767)
        enc, table = PS.encodeIntT2, PS.t2OperandEncoding
    elif fmt == 'cff':
        v = V.int('v', -2 ** 31, 2 ** 31 - 1)
        enc, table = PS.encodeIntCFF, PS.cffDictOperandEncoding
    else:
        v = V.int('v', -2 ** 31, 2 ** 31 - 1)
        enc, table = PS.encodeIntT1, PS.t1OperandEncoding
    data = enc(v)
    observe('encoded', tobytes(data))
    r, idx = _decode_operand(table, data)
    ob('roundtrip', eq(r, v))
    ob('consumed', idx == len(data))
    ob('size', len(data) in (1, 2, 3, 5))


@kernel('C15', funcs=['misc/psCharStrings.py:encodeFixed', 'misc/psCharStrings.py:read_fixed1616', 'misc/fixedTools.py:floatToFixed',
                       'misc/fixedTools.py:fixedToFloat', 'misc/roundTools.py:otRound'],
        bounds='all 16.16 values n/65536, n in [-2^31, 2^31-1], as exact reals (dyadic rationals are exact in doubles)',
        shims=['struct', 'math.floor', 'int'], exact=True)
def t2_fixed_roundtrip():
    n = V.int('n', -2 ** 31, 2 ** 31 - 1, bv=False)
    f = n / 65536
    data = PS.encodeFixed(f)
    observe('encoded', tobytes(data))
    r, idx = _decode_operand(PS.t2OperandEncoding, data)
    ob('roundtrip', eq(r, f))
    ob('consumed', idx == len(data))


# ---------------------------------------------------------------- fixed point
@kernel('C15', funcs=['misc/fixedTools.py:floatToFixed', 'misc/fixedTools.py:fixedToFloat', 'misc/roundTools.py:otRound'],
        bounds='all n in [-2^31, 2^31-1] for precisionBits in {14, 16}; reals (dyadic values are exact in doubles)',
        shims=['math.floor', 'int'], quick=[dict(bits=14), dict(bits=16)], exact=True)
def fixed_roundtrip(bits):
    n = V.int('n', -2 ** 31, 2 ** 31 - 1, bv=False)
    f = FX.fixedToFloat(n, bits)
    observe('float', f)
    r = FX.floatToFixed(f, bits)
    ob('roundtrip', eq(r, n))
    f2 = FX.floatToFixedToFloat(f, bits)
    ob('idempotent', eq(f2, f))


@kernel('C15', funcs=['misc/roundTools.py:otRound', 'misc/fixedTools.py:floatToFixed'],
        bounds='all real x in [-40000, 40000]: otRound(x) is the integer n with n - 1/2 <= x < n + 1/2 (ties towards +inf)',
        shims=['math.floor', 'int'], exact=True)
def otround_spec():
    x = V.real('x', -40000, 40000)
    n = RT.otRound(x)
    observe('rounded', n)
    ob('integral', True if isinstance(n, int) else eq(n, n))
    ob('lower', le(n - 0.5, x))
    ob('upper', x < n + 0.5)
    k = FX.floatToFixed(x, 14)
    ob('fixed-within-half-ulp', conj([le(k - 0.5, x * 16384), x * 16384 < k + 0.5]))


# ---------------------------------------------------------------- eexec
@kernel('C15', funcs=['misc/eexec.py:encrypt', 'misc/eexec.py:decrypt', 'misc/eexec.py:_encryptChar', 'misc/eexec.py:_decryptChar'],
        bounds='all keys R in [0, 65535] x all plaintexts of n bytes, n = 1 (quick) / 1..2 (thorough); longer strings follow from eexec_step by induction over the fold', shims=['byteord', 'bytechr', 'bytesjoin', 'int'],
        quick=[dict(n=1)], thorough=[dict(n=n) for n in (1, 2)])
def eexec_roundtrip(n):
    R = V.int('R', 0, 0xFFFF)
    plain = V.bytes('plain', n)
    cipher, R1 = EE.encrypt(plain, R)
    observe('cipher', tobytes(cipher))
    back, R2 = EE.decrypt(cipher, R)
    ob('decrypt(encrypt)', eq(tobytes(back), tobytes(plain)))
    ob('same-final-key', eq(R1, R2))
    c2, R3 = EE.decrypt(plain, R)
    p2, R4 = EE.encrypt(c2, R)
    ob('encrypt(decrypt)', eq(tobytes(p2), tobytes(plain)))
    ob('same-final-key-2', eq(R3, R4))


@kernel('C15', funcs=['misc/eexec.py:_encryptChar', 'misc/eexec.py:_decryptChar'],
        bounds='one cipher-feedback step from an ARBITRARY key state R in [0, 65535] and byte: the inductive step for strings of any length',
        shims=['byteord', 'bytechr'])
def eexec_step():
    R = V.int('R', 0, 0xFFFF)
    p = V.int('p', 0, 255)
    c, R1 = EE._encryptChar(p, R)
    p2, R2 = EE._decryptChar(c, R)
    observe('cipher', tobytes(c))
    ob('inverse', eq(tobytes(p2), tobytes(bytes([p]) if not symbolic() else __import__('sx.shims').shims.SBytes([p]))))
    ob('same-next-key', eq(R1, R2))
    ob('key-stays-16-bit', conj([0 <= R1, R1 <= 0xFFFF]))
    c3, R3 = EE._decryptChar(p, R)
    p4, R4 = EE._encryptChar(c3, R)
    ob('inverse-2', eq(tobytes(p4), tobytes(bytes([p]) if not symbolic() else __import__('sx.shims').shims.SBytes([p]))))
    ob('same-next-key-2', eq(R3, R4))


# ---------------------------------------------------------------- sstruct
_FMT = """
    > # big endian
    a: b
    b: B
    c: h
    d: H
    e: l
    f: L
    g: 4s
    v: 16.16F
    w: 2.14F
"""


@kernel('C15', funcs=['misc/sstruct.py:pack', 'misc/sstruct.py:unpack', 'misc/sstruct.py:getformat', 'misc/fixedTools.py:floatToFixed', 'misc/fixedTools.py:fixedToFloat'],
        bounds='one record with every field kind (b B h H l L 4s 16.16F 2.14F); every numeric field symbolic over its whole range (the 4s field is a concrete ASCII tag: decoding text goes through codecs, C); fixed fields as k/2^n',
        shims=['struct', 'tobytes', 'tostr', 'isinstance', 'math.floor', 'int'], exact=True)
def sstruct_roundtrip():
    rec = dict(a=V.int('a', -128, 127), b=V.int('b', 0, 255), c=V.int('c', -32768, 32767), d=V.int('d', 0, 65535),
               e=V.int('e', -2 ** 31, 2 ** 31 - 1), f=V.int('f', 0, 2 ** 32 - 1), g=b'AbC ')
    nv = V.int('nv', -2 ** 31, 2 ** 31 - 1, bv=False)
    nw = V.int('nw', -2 ** 15, 2 ** 15 - 1, bv=False)
    rec['v'] = nv / 65536
    rec['w'] = nw / 16384
    data = SS.pack(_FMT, rec)
    observe('packed', tobytes(data))
    ob('size', len(data) == SS.calcsize(_FMT))
    out = SS.unpack(_FMT, data)
    for k in 'abcdef':
        ob('field-' + k, eq(out[k], rec[k]))
    ob('field-g', eq(tobytes(out['g']) if not isinstance(out['g'], str) else out['g'].encode('latin-1'), tobytes(rec['g'])))
    ob('field-v', eq(out['v'], rec['v']))
    ob('field-w', eq(out['w'], rec['w']))
    data2 = SS.pack(_FMT, out)
    ob('repack-identical', eq(tobytes(data2), tobytes(data)))


@kernel('C15', funcs=['misc/psCharStrings.py:encodeFixed', 'misc/psCharStrings.py:read_fixed1616', 'misc/psCharStrings.py:read_operator'],
        bounds='ALL real x in [-30000, 30000] (not only 16.16 values): the Type 2 operand written by encodeFixed decodes to a value within 2^-17 of x (the nearest '
               '16.16 number), also when that nearest value is an integer and the short integer form is chosen',
        shims=['struct', 'int/round'], quick=[dict()])
def t2_fixed_nearest():
    x = V.real('x', -30000, 30000)
    data = PS.encodeFixed(x)
    observe('encoded', tobytes(data))
    d = tobytes(data)
    val, _ = _decode_operand(PS.t2OperandEncoding, d)
    ob('within-half-ulp', conj([le(val - x, 1 / 131072), le(x - val, 1 / 131072)]))
