"""C15 kernels: IFT sparse bit set encode <-> decode (misc/iftSparseBitSet.py) on symbolic integer sets."""
from sx.api import instrument, kernel, shim_all, V, ob, observe, eq, conj, disj, neg, assume, tobytes, symbolic, le, lt
import fontTools.misc.iftSparseBitSet as BS

shim_all(BS)
instrument(BS, '_encodeWithBf', dicts=True)


@kernel('C15', funcs=['misc/iftSparseBitSet.py:encode', 'misc/iftSparseBitSet.py:_encodeWithBf', 'misc/iftSparseBitSet.py:_treeHeight', 'misc/iftSparseBitSet.py:_OutputBitStream.write',
                      'misc/iftSparseBitSet.py:decode', 'misc/iftSparseBitSet.py:_decodeImpl', 'misc/iftSparseBitSet.py:_InputBitStream.next', 'misc/iftSparseBitSet.py:_trailingZeros'],
        bounds='sets of k distinct symbolic integers in [lo, lo + span] (k, lo, span from the parameter; lo = 0, 30, 1020, 32760 put the window across one, two, three '
               'and four tree levels of the branch factors 2/4/8/32; k = 4..8 on a window of 8-10 makes completely filled subtrees - the zero-node shortcut - reachable): '
               'decode(encode(S)) returns exactly S and consumes exactly the encoded bytes; all four branch factors are exercised because encode tries each and keeps the '
               'shortest.  The encoder branches on every bit of every value, so each completed path fixes one concrete set: within the window the solver walks through all '
               'C(span+1, k) sets (the property allows exhaustive enumeration where the domain is small), and nothing outside the windows is claimed',
        shims=['the two layer dictionaries of _encodeWithBf become association lists compared by == (instrumented empty dict displays)', 'set of distinct symbolic ints: collide mode', 'bisect on proxies'],
        quick=[dict(k=2, lo=0, span=12), dict(k=3, lo=30, span=6), dict(k=6, lo=0, span=7)],
        thorough=[dict(k=1, lo=0, span=600), dict(k=1, lo=32700, span=200), dict(k=2, lo=0, span=40), dict(k=2, lo=1020, span=12), dict(k=3, lo=0, span=9), dict(k=3, lo=30, span=10),
                  dict(k=4, lo=0, span=8), dict(k=6, lo=0, span=7), dict(k=7, lo=0, span=7), dict(k=8, lo=0, span=8), dict(k=8, lo=24, span=8), dict(k=4, lo=60, span=7)],
        collide=True, max_paths=200000)
def sparse_bit_set_roundtrip(k, lo, span):
    vals = [V.int('v%d' % i, lo, lo + span) for i in range(k)]
    # strictly increasing: removes the symmetric copies of each set; sets with fewer elements are the tasks with smaller k
    for i in range(k - 1):
        assume(lt(vals[i], vals[i + 1]))
    data = BS.encode(vals)
    observe('encoded', tobytes(data))
    got, used = BS.decode(data if symbolic() else bytes(data))
    ob('consumed-all', used == len(data))
    got = sorted(got)
    # S as a duplicate-free sorted list
    want = []
    for v in vals:
        if not want or not (want[-1] == v):
            want.append(v)
    ob('same-size', len(got) == len(want))
    if len(got) == len(want):
        ob('roundtrip', conj([eq(a, b) for a, b in zip(got, want)]))
