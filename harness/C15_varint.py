"""C15 kernels: variable-length integers (WOFF2 255UInt16 / UIntBase128, otTables uint32var)."""
from sx.api import kernel, shim_all, V, ob, observe, eq, conj, shim, assume, tobytes
import fontTools.ttLib.woff2 as W
from fontTools.ttLib import TTLibError

shim_all(W)

F = ['ttLib/woff2.py:pack255UShort', 'ttLib/woff2.py:unpack255UShort', 'ttLib/woff2.py:packBase128',
     'ttLib/woff2.py:unpackBase128', 'ttLib/woff2.py:base128Size']


@kernel('C15', funcs=F, bounds='all v in [0, 65535]', shims=['struct', 'byteord'])
def u255_roundtrip():
    v = V.int('v', 0, 0xFFFF)
    data = W.pack255UShort(v)
    observe('encoded', tobytes(data))
    r, rest = W.unpack255UShort(data)
    ob('roundtrip', eq(r, v))
    ob('consumed', len(rest) == 0)
    ob('size', 1 <= len(data) <= 3)


@kernel('C15', funcs=F, bounds='all byte strings of length n in 1..4 (every byte symbolic)', shims=['struct', 'byteord'],
        quick=[dict(n=n) for n in (1, 2, 3, 4)])
def u255_decode(n):
    data = V.bytes('data', n)
    try:
        r, rest = W.unpack255UShort(data)
    except TTLibError:
        ob('rejected-only-when-short', n < 3)
        return
    observe('value', r)
    ob('range', conj([0 <= r, r <= 0xFFFF]))
    # decoding is many-to-one (documented); re-encoding must decode to the same value
    r2, rest2 = W.unpack255UShort(W.pack255UShort(r))
    ob('reencode-same-value', eq(r2, r))
    ob('rest-is-suffix', eq(tobytes(rest), tobytes(data)[n - len(rest):]))


@kernel('C15', funcs=F, bounds='all v in [0, 2^32-1]; also v = -1 and v = 2^32 must be rejected', shims=['struct', 'byteord', 'range'])
def base128_roundtrip():
    v = V.int('v', 0, 2 ** 32 - 1)
    data = W.packBase128(v)
    observe('encoded', tobytes(data))
    r, rest = W.unpackBase128(data)
    ob('roundtrip', eq(r, v))
    ob('consumed', len(rest) == 0)
    ob('size', eq(len(data), W.base128Size(v)))
    ob('minimal', conj([1 <= len(data), len(data) <= 5]))


@kernel('C15', funcs=F, bounds='v in [-4, -1] or [2^32, 2^32+4]', shims=['struct'])
def base128_domain():
    v = V.int('v', -4, 2 ** 32 + 4)
    assume((v < 0) | (v >= 2 ** 32))
    try:
        W.packBase128(v)
    except TTLibError:
        ob('rejected', True)
        return
    ob('rejected', False)


@kernel('C15', funcs=F, bounds='all byte strings of length n in 1..6 (every byte symbolic)', shims=['struct', 'byteord', 'range'],
        quick=[dict(n=n) for n in (1, 2, 3, 4, 5, 6)])
def base128_decode(n):
    data = V.bytes('data', n)
    try:
        r, rest = W.unpackBase128(data)
    except TTLibError:
        ob('rejected', True)
        return
    observe('value', r)
    ob('range', conj([0 <= r, r < 2 ** 32]))
    enc = W.packBase128(r)
    # the format is canonical: accepted input == shortest encoding + untouched rest
    ob('canonical', eq(tobytes(enc) + tobytes(rest), tobytes(data)))
