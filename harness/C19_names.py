"""C19 kernels: generated file names are legal, at most 255 characters and unique ignoring case; axis maps invert.

The file-name functions are string code; their source is instrumented on every run (sx.instrument: "".join, `in`) and executed on
symbolic strings of concrete length (sx.strings).  Alphabet: printable ASCII (case folding of other scripts is outside the model).
"""
from sx.api import instrument, kernel, shim_all, V, ob, observe, eq, conj, disj, neg, assume, symbolic, le, lt, ite, collide
import fontTools.ufoLib.filenames as UF
import fontTools.misc.filenames as MF
import fontTools.designspaceLib as DS
import fontTools.varLib.models as M

shim_all(UF, MF)
for _m in (UF, MF):
    instrument(_m, 'userNameToFileName', 'handleClash1', 'handleClash2', strings=True, membership=True)

# written from the modules' documentation: ufoLib (UFO 3 conventions incl. parentheses) and misc (the older list without them)
ILLEGAL_UFO = [chr(i) for i in range(32)] + list('"*+/:<>?[\\]()|') + ['\x7f']
ILLEGAL_MISC = [chr(i) for i in range(32)] + list('"*+/:<>?[\\]|') + ['\x7f']
# misc.filenames documents (and implements) the shorter list of the UFO 3 conventions text it was copied from
RESERVED_MISC = ['con', 'prn', 'aux', 'clock$', 'nul', 'com1', 'lpt1', 'lpt2', 'lpt3', 'com2', 'com3', 'com4']
RESERVED = ['aux', 'clock$', 'com1', 'com2', 'com3', 'com4', 'com5', 'com6', 'com7', 'com8', 'com9', 'con', 'lpt1', 'lpt2', 'lpt3', 'lpt4', 'lpt5',
            'lpt6', 'lpt7', 'lpt8', 'lpt9', 'nul', 'prn']


def chars(s):
    """result string -> list of code points (ints / symbolic ints)"""
    if isinstance(s, str):
        return [ord(c) for c in s]
    return s.codepoints()


def lower_cp(c):
    if isinstance(c, int):
        return ord(chr(c).lower())
    return ite(conj([le(65, c), le(c, 90)]), c + 32, c)


def str_eq_ci(a, b):
    """case-insensitive equality of two results (ASCII)"""
    ca, cb = chars(a), chars(b)
    if len(ca) != len(cb):
        return False
    return conj([eq(lower_cp(x), lower_cp(y)) for x, y in zip(ca, cb)])


def parts_of(cps):
    """split a list of code points on '.' : needs the dots to be decided -> forks"""
    parts = [[]]
    for c in cps:
        if bool(eq(c, 46)):
            parts.append([])
        else:
            parts[-1].append(c)
    return parts


def is_reserved(part, names=None):
    return disj([conj([eq(lower_cp(c), ord(r)) for c, r in zip(part, name)]) for name in (names or RESERVED) if len(name) == len(part)])


def check_name(res, prefix, suffix, existing, label='', ILLEGAL=ILLEGAL_UFO, reserved=None):
    cps = chars(res)
    ob(label + 'length<=255', len(cps) <= 255)
    ob(label + 'keeps-prefix-suffix', chars(res)[:len(prefix)] == [ord(c) for c in prefix] if not symbolic() else bool(conj([eq(a, ord(b)) for a, b in zip(cps[:len(prefix)], prefix)]))
       and (not suffix or bool(conj([eq(a, ord(b)) for a, b in zip(cps[len(cps) - len(suffix):], suffix)]))))
    body = cps[len(prefix):len(cps) - len(suffix)] if suffix else cps[len(prefix):]
    ob(label + 'no-illegal-character', conj([neg(eq(c, ord(x))) for c in body for x in ILLEGAL]))
    ob(label + 'not-an-existing-name', conj([neg(str_eq_ci(res, e)) for e in existing]))
    if not prefix:
        ob(label + 'no-reserved-part', conj([neg(is_reserved(p, reserved)) for p in parts_of(body) if p]))
        ob(label + 'no-leading-period', neg(eq(cps[0], 46)) if cps else True)


F_FN = ['ufoLib/filenames.py:userNameToFileName', 'ufoLib/filenames.py:handleClash1', 'ufoLib/filenames.py:handleClash2']


@kernel('C19', funcs=F_FN,
        bounds='userName = concrete filler of `fill` characters ("a") + k symbolic printable-ASCII characters (k from the parameter, <= 5; every '
               'upper/lower/illegal/period pattern and every reserved word that fits is a solver fork); prefix/suffix from the parameter; existing = '
               'empty / {the name itself lower-cased, so the clash path runs} ; both copies (ufoLib.filenames, misc.filenames)',
        outside=['non-ASCII names (Unicode case folding)', 'handleClash2 exhaustion (10^15 clashes)'],
        shims=['symbolic strings of concrete length (sx.strings)', '"".join / in: instrumented source'],
        quick=[dict(mod='ufo', fill=0, k=3, prefix='', suffix='', clash=False), dict(mod='ufo', fill=0, k=4, prefix='', suffix='.glif', clash=False),
               dict(mod='ufo', fill=0, k=3, prefix='', suffix='.glif', clash=True), dict(mod='ufo', fill=251, k=4, prefix='', suffix='', clash=False),
               dict(mod='ufo', fill=236, k=3, prefix='', suffix='.glif', clash=True), dict(mod='misc', fill=0, k=3, prefix='', suffix='', clash=False),
               dict(mod='ufo', fill=0, k=3, prefix='glyphs.', suffix='', clash=False)],
        thorough=[dict(mod='ufo', fill=f, k=k, prefix=p, suffix=s, clash=c) for f, k in ((0, 3), (0, 4), (0, 5), (250, 4), (251, 4), (240, 5), (236, 3))
                  for p, s in (('', ''), ('', '.glif'), ('glyphs.', '')) for c in (False, True) if not (k == 5 and c)]
        + [dict(mod='misc', fill=f, k=k, prefix='', suffix=s, clash=c) for f, k in ((0, 4), (251, 4), (236, 3)) for s in ('', '.glif') for c in (False, True)],
        max_paths=400000, conc_cap=8)
def filename_legal(mod, fill, k, prefix, suffix, clash):
    m = UF if mod == 'ufo' else MF
    tail = V.str('u', k)
    name = 'a' * fill + tail if fill else tail
    if not clash:
        res = m.userNameToFileName(name, existing=(), prefix=prefix, suffix=suffix)
        existing = []
    else:
        first = m.userNameToFileName(name, existing=(), prefix=prefix, suffix=suffix)
        existing = [first.lower()]
        res = m.userNameToFileName(name, existing=existing, prefix=prefix, suffix=suffix)
    observe('length', len(chars(res)))
    check_name(res, prefix, suffix, existing, ILLEGAL=ILLEGAL_UFO if mod == 'ufo' else ILLEGAL_MISC, reserved=None if mod == 'ufo' else RESERVED_MISC)


@kernel('C19', funcs=F_FN,
        bounds='a SEQUENCE of two names fed through `existing` the way GlyphSet/UFOWriter do: name1 and name2 share a concrete filler and differ in k '
               'symbolic characters (so they may be equal, equal ignoring case, or different): the two file names differ ignoring case, and both are legal',
        quick=[dict(fill=0, k=2, suffix='.glif'), dict(fill=240, k=2, suffix='.glif')],
        thorough=[dict(fill=f, k=k, suffix=s) for f in (0, 240, 247) for k in (2,) for s in ('', '.glif')] + [dict(fill=0, k=3, suffix='')], max_paths=400000, conc_cap=8)
def filenames_unique_ignoring_case(fill, k, suffix):
    a = 'a' * fill + V.str('u', k)
    b = 'a' * fill + V.str('v', k)
    existing = set() if not symbolic() else []
    r1 = UF.userNameToFileName(a, existing=existing, prefix='', suffix=suffix)
    ex = [r1.lower()]
    r2 = UF.userNameToFileName(b, existing=ex, prefix='', suffix=suffix)
    ob('distinct-ignoring-case', neg(str_eq_ci(r1, r2)))
    check_name(r1, '', suffix, [], 'first:')
    check_name(r2, '', suffix, ex, 'second:')


# ------------------------------------------------------------------------------------------------ axis maps
shim_all(DS, M)


@kernel('C19', funcs=['designspaceLib/__init__.py:AxisDescriptor.map_forward', 'designspaceLib/__init__.py:AxisDescriptor.map_backward',
                      'designspaceLib/__init__.py:AxisDescriptor.get_validated_map', 'varLib/models.py:piecewiseLinearMap',
                      'designspaceLib/__init__.py:DesignSpaceDocument.map_forward', 'designspaceLib/__init__.py:DesignSpaceDocument.map_backward'],
        bounds='continuous axis with a STRICTLY monotone (increasing, or decreasing) user->design map of 2 symbolic knots (reals; with 3 knots all 9000 paths but two are decided, those two need more than 600 s of non-linear real arithmetic each on a loaded machine, so 3 knots are left out of both tiers and not claimed) and a symbolic value v anywhere (inside, '
               'at, and outside the knots): map_backward(map_forward(v)) == v and map_forward(map_backward(w)) == w; the document-level maps agree '
               'with the axis-level ones',
        shims=['dict keyed by symbolic reals: collide mode', 'sorted() forks on comparisons'],
        quick=[dict(n=2), dict(n=2, decreasing=True)], thorough=[dict(n=2), dict(n=2, decreasing=True)], collide=True, path_timeout_s=600)
def axis_map_inverse(n, decreasing=False):
    a = DS.AxisDescriptor()
    a.name = 'Weight'
    a.tag = 'wght'
    us = [V.real('user%d' % i, 0, 1000) for i in range(n)]
    ds = [V.real('design%d' % i, 0, 1000) for i in range(n)]
    for x, y in zip(us, us[1:]):
        assume(lt(x, y))
    for x, y in zip(ds, ds[1:]):
        assume(lt(y, x) if decreasing else lt(x, y))          # a decreasing map is monotone too
    a.minimum, a.default, a.maximum = us[0], us[0], us[-1]
    a.map = list(zip(us, ds))
    v = V.real('v', -200, 1200)
    if decreasing:
        # outside the knots both directions continue with slope +1 (library convention), which cannot invert a decreasing map: the
        # decreasing variant is claimed between the knots only (designspace outputs must ascend for building anyway)
        assume(conj([le(us[0], v), le(v, us[-1])]))
    w = a.map_forward(v)
    back = a.map_backward(w)
    observe('forward', w)
    ob('backward-after-forward', eq(back, v))
    w2 = V.real('w', -200, 1200)
    if decreasing:
        assume(conj([le(ds[-1], w2), le(w2, ds[0])]))
    ob('forward-after-backward', eq(a.map_forward(a.map_backward(w2)), w2))
    ob('knots-map-to-knots', conj([eq(a.map_forward(u), d) for u, d in zip(us, ds)] + [eq(a.map_backward(d), u) for u, d in zip(us, ds)]))
    doc = DS.DesignSpaceDocument()
    doc.axes = [a]
    ob('document-level-forward', eq(doc.map_forward({'Weight': v})['Weight'], w))
    ob('document-level-backward', eq(doc.map_backward({'Weight': w})['Weight'], back))
