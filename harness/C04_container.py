"""C04 kernels: every saved file is a valid container with consistent derived fields.

The file written by the real SFNTWriter / TTFont.save is parsed by an independent reader written from the OpenType and WOFF
specifications inside this harness (no code shared with fontTools); table CONTENTS are symbolic.
"""
from sx.api import kernel, shim_all, shim, be_uint, eq_mod32, V, ob, observe, eq, conj, disj, neg, assume, symbolic, le, lt, tobytes, ite
import fontTools.ttLib.sfnt as SF
import fontTools.misc.sstruct as SS
import fontTools.ttLib.ttFont as TF
import fontTools.ttLib.tables.DefaultTable as DT
from fontTools.ttLib import TTFont, TTLibError

shim_all(SF, SS, TF, DT)


def new_file():
    if symbolic():
        from sx.shims import SFile
        return SFile()
    from io import BytesIO
    return BytesIO()


def u16(d, o):
    return be_uint(d[o:o + 2])


def u32(d, o):
    return be_uint(d[o:o + 4])


def tag_at(d, o):
    return bytes(int(d[o + i]) for i in range(4)).decode('latin-1')


def spec_checksum(d, start, length, zero_at=None):
    """OpenType table checksum: sum of big-endian uint32 over the zero-padded table, modulo 2^32"""
    total = 0
    n = (length + 3) // 4
    for w in range(n):
        bs = []
        for i in range(4):
            p = start + 4 * w + i
            inside = (4 * w + i) < length
            b = d[p] if (inside and p < len(d)) else 0
            if zero_at is not None and zero_at <= p < zero_at + 4:
                b = 0
            bs.append(b)
        total = total + be_uint(bs)   # no intermediate masking: at most 2^32 * words, far below 2^62
    return total & 0xFFFFFFFF


def spec_search(n, item=16):
    e = 0
    while (1 << (e + 1)) <= n:
        e += 1
    if n == 0:
        return 0 if False else item * 1, 0, 0   # fontTools writes 2**0*16 for n=0; not reachable with >= 1 table
    sr = (1 << e) * item
    return sr, e, n * item - sr


def check_sfnt(blob, tables, order_must_be=None):
    """independent reader.  tables: dict tag -> input data (bytes-like, possibly symbolic).  Records obligations."""
    d = tobytes(blob)
    d = list(d.b) if hasattr(d, 'b') else list(d)
    n = len(tables)
    ob('header-size', len(d) >= 12 + 16 * n)
    if len(d) < 12 + 16 * n:
        return
    ob('numTables', eq(u16(d, 4), n))
    sr, es, rs = spec_search(n)
    ob('search-fields', conj([eq(u16(d, 6), sr), eq(u16(d, 8), es), eq(u16(d, 10), rs)]))
    entries = []
    for k in range(n):
        o = 12 + 16 * k
        entries.append((tag_at(d, o), u32(d, o + 4), int(u32(d, o + 8)), int(u32(d, o + 12))))
    tags = [e[0] for e in entries]
    ob('directory-sorted-by-tag', tags == sorted(tags))
    ob('directory-complete', sorted(tags) == sorted(tables.keys()))
    spans = []
    head_off = None
    for tag, cks, off, length in entries:
        if tag not in tables:
            continue
        want = tobytes(tables[tag])
        ob('aligned:' + tag, off % 4 == 0 and off >= 12 + 16 * n)
        ob('length:' + tag, length == len(want))
        ob('in-file:' + tag, off + length <= len(d))
        if off + length > len(d):
            continue
        spans.append((off, off + length, tag))
        if tag == 'head':
            head_off = off
    spans.sort()
    ok = True
    pos = 12 + 16 * n
    pad_conds = []
    for a, b, tag in spans:
        if a < pos:
            ok = False
        for p in range(pos, a):
            pad_conds.append(eq(d[p], 0))
        pos = b
    ob('tables-do-not-overlap', ok)
    end = pos
    for p in range(end, len(d)):
        pad_conds.append(eq(d[p], 0))
    ob('gaps-and-tail-are-zero', conj(pad_conds))
    ob('file-length-padded', len(d) == ((end + 3) & ~3) or not spans)
    for tag, cks, off, length in entries:
        if tag not in tables or off + length > len(d):
            continue
        want = tobytes(tables[tag])
        got = d[off:off + length]
        wl = list(want.b) if hasattr(want, 'b') else list(want)
        if tag == 'head' and length >= 12:
            # checkSumAdjustment (bytes 8..12) is the one field the writer owns
            ob('content:' + tag, conj([eq(x, y) for i, (x, y) in enumerate(zip(got, wl)) if not 8 <= i < 12]))
            ob('checksum:' + tag, eq_mod32(cks, spec_checksum(d, off, length, zero_at=off + 8)))
        else:
            ob('content:' + tag, conj([eq(x, y) for x, y in zip(got, wl)]))
            ob('checksum:' + tag, eq_mod32(cks, spec_checksum(d, off, length)))
    if head_off is not None:
        whole = spec_checksum(d, 0, len(d))
        ob('whole-file-checksum-0xB1B0AFBA', eq_mod32(whole, 0xB1B0AFBA))
    if order_must_be is not None:
        phys = [t for _, _, t in spans]
        ob('physical-order', phys == order_must_be)


TAGSETS = {
    'a': ['aaaa'], 'ha': ['head', 'aaaa'], 'haz': ['head', 'aaaa', 'zzzz'], 'hDa': ['head', 'DSIG', 'aaaa'],
    'hCa': ['head', 'CFF ', 'aaaa'], 'gh': ['glyf', 'head', 'cmap', 'OS/2'], 'five': ['head', 'aaaa', 'bbbb', 'cccc', 'dddd'],
}


def _lens(tags, lens):
    return {t: (max(l, 12) if t == 'head' and l < 12 else l) for t, l in zip(tags, lens)}


F_W = ['ttLib/sfnt.py:SFNTWriter.__init__', 'ttLib/sfnt.py:SFNTWriter.__setitem__', 'ttLib/sfnt.py:SFNTWriter.close', 'ttLib/sfnt.py:SFNTWriter._calcMasterChecksum',
       'ttLib/sfnt.py:SFNTWriter.writeMasterChecksum', 'ttLib/sfnt.py:calcChecksum', 'ttLib/sfnt.py:DirectoryEntry.saveData', 'ttLib/ttFont.py:getSearchRange',
       'ttLib/ttFont.py:maxPowerOfTwo', 'misc/sstruct.py:pack']


@kernel('C04', funcs=F_W,
        bounds='SFNTWriter driven directly: tag sets of 1-5 tables (with/without head, DSIG, CFF), table lengths from the listed patterns '
               '(0..9 bytes; head 12..16), ALL table bytes symbolic, tables written in the listed order; the output is parsed by the '
               'in-harness spec reader',
        shims=['SFile (BytesIO)', 'struct'],
        quick=[dict(tags='ha', lens=[12, 5], order=[0, 1]), dict(tags='ha', lens=[16, 0], order=[1, 0]), dict(tags='haz', lens=[13, 1, 4], order=[2, 0, 1]),
               dict(tags='a', lens=[3], order=[0]), dict(tags='hDa', lens=[12, 2, 7], order=[0, 1, 2])],
        thorough=[dict(tags='ha', lens=[h, a], order=o) for h in (12, 13, 14, 15, 16) for a in (0, 1, 2, 3, 4, 5, 8, 9) for o in ([0, 1], [1, 0])]
        + [dict(tags='haz', lens=[12, a, z], order=o) for a in (0, 1, 4) for z in (0, 3, 5) for o in ([0, 1, 2], [2, 1, 0], [1, 2, 0])]
        + [dict(tags='five', lens=[14, 1, 2, 3, 4], order=[4, 3, 2, 1, 0]), dict(tags='a', lens=[0], order=[0]), dict(tags='hCa', lens=[12, 6, 1], order=[0, 1, 2])])
def sfnt_writer_container(tags, lens, order):
    tags = TAGSETS[tags]
    ln = _lens(tags, lens)
    tables = {t: (V.bytes('t_' + t.strip().replace('/', '_'), ln[t]) if ln[t] else b'') for t in tags}
    f = new_file()
    w = SF.SFNTWriter(f, len(tags), '\x00\x01\x00\x00')
    for i in order:
        w[tags[i]] = tables[tags[i]]
    w.close()
    blob = f.getvalue()
    observe('file', tobytes(blob))
    check_sfnt(blob, tables, order_must_be=[tags[i] for i in order])


@kernel('C04', funcs=F_W + ['ttLib/ttFont.py:TTFont.save', 'ttLib/ttFont.py:TTFont._save', 'ttLib/ttFont.py:TTFont._writeTable', 'ttLib/ttFont.py:reorderFontTables',
                             'ttLib/ttFont.py:sortedTagList', 'ttLib/sfnt.py:SFNTReader.__init__', 'ttLib/sfnt.py:SFNTReader.__getitem__'],
        bounds='the real TTFont.save (to a stream) of a font holding raw tables with symbolic contents, reorderTables in {True, False, None}: '
               'same spec reader; with reorderTables=True the physical table order is the OpenType-recommended one',
        shims=['SFile (BytesIO)', 'struct'],
        quick=[dict(tags='haz', lens=[12, 3, 6], reorder=True), dict(tags='gh', lens=[4, 16, 2, 1], reorder=True), dict(tags='ha', lens=[14, 5], reorder=None),
               dict(tags='hDa', lens=[12, 1, 2], reorder=True)],
        thorough=[dict(tags=t, lens=l, reorder=r) for t, l in (('haz', [12, 3, 6]), ('gh', [4, 16, 2, 1]), ('hDa', [12, 1, 2]), ('hCa', [13, 2, 5]), ('five', [12, 0, 1, 2, 3]), ('a', [5]))
                  for r in (True, None)])
def ttfont_save_container(tags, lens, reorder):
    tagl = TAGSETS[tags]
    ln = _lens(tagl, lens)
    tables = {t: (V.bytes('t_' + t.strip().replace('/', '_'), ln[t]) if ln[t] else b'') for t in tagl}
    font = TTFont(recalcTimestamp=False)
    for t in tagl:
        tb = DT.DefaultTable(t)
        tb.data = tables[t]
        font[t] = tb
    f = new_file()
    if symbolic():
        from sx import shims as _sh
        TF.BytesIO = _sh.BytesIO_shim
    font.save(f, reorderTables=reorder)
    blob = f.getvalue()
    observe('file', tobytes(blob))
    want_order = None
    if reorder is True:
        # OpenType-recommended order, written from the spec: TrueType: head hhea maxp OS/2 hmtx LTSH VDMX hdmx cmap fpgm prep cvt loca glyf
        # kern name post gasp PCLT; CFF: head hhea maxp OS/2 name cmap post CFF; others alphabetical after; DSIG last
        tt = ['head', 'hhea', 'maxp', 'OS/2', 'hmtx', 'LTSH', 'VDMX', 'hdmx', 'cmap', 'fpgm', 'prep', 'cvt ', 'loca', 'glyf', 'kern', 'name', 'post', 'gasp', 'PCLT']
        cff = ['head', 'hhea', 'maxp', 'OS/2', 'name', 'cmap', 'post', 'CFF ']
        pref = cff if 'CFF ' in tagl else tt
        rest = sorted(t for t in tagl if t not in pref and t != 'DSIG')
        want_order = [t for t in pref if t in tagl] + rest + (['DSIG'] if 'DSIG' in tagl else [])
    check_sfnt(blob, tables, order_must_be=want_order)


@kernel('C04', funcs=['ttLib/ttFont.py:getSearchRange', 'ttLib/ttFont.py:maxPowerOfTwo'],
        bounds='ALL n in [1, 65535] and itemSize in {16, 4, 6}: searchRange = itemSize * 2^floor(log2 n), entrySelector = floor(log2 n), '
               'rangeShift = n*itemSize - searchRange',
        quick=[dict(item=16), dict(item=4)], thorough=[dict(item=16), dict(item=4), dict(item=6), dict(item=2)])
def search_range_spec(item):
    n = V.int('n', 1, 65535)
    sr, es, rs = TF.getSearchRange(n, item)
    observe('fields', [sr, es, rs])
    # spec: 2^es <= n < 2^(es+1)
    p = sr // item if isinstance(sr, int) else sr // item
    ob('power-of-two-bracket', conj([le(p, n), lt(n, p * 2)]))
    ob('entrySelector-is-log2', disj([conj([eq(es, e), eq(p, 1 << e)]) for e in range(0, 17)]))
    ob('rangeShift', eq(rs, n * item - sr))


@kernel('C04', funcs=['ttLib/sfnt.py:calcChecksum'],
        bounds='calcChecksum over symbolic data of the listed lengths (incl. the 4096-byte block boundary through a family of a concrete '
               'zero prefix of 4092..4100 bytes followed by 6 symbolic bytes) equals the spec sum; padding invariance; block additivity',
        shims=['struct'], quick=[dict(prefix=0, n=n) for n in (0, 1, 3, 4, 5, 8, 11)] + [dict(prefix=p, n=6) for p in (4090, 4094, 4096)],
        thorough=[dict(prefix=0, n=n) for n in range(0, 17)] + [dict(prefix=p, n=6) for p in range(4086, 4101)])
def checksum_spec(prefix, n):
    data = V.bytes('data', n) if n else b''
    full = bytes(prefix) + data if not symbolic() else tobytes(bytes(prefix)) + tobytes(data) if prefix else data
    got = SF.calcChecksum(full)
    observe('checksum', got)
    d = tobytes(full)
    d = list(d.b) if hasattr(d, 'b') else list(d)
    ob('equals-spec-sum', eq(got, spec_checksum(d, 0, len(d))))
    padded = full + b'\0' * ((4 - len(d) % 4) % 4) if len(d) % 4 else full
    ob('padding-invariant', eq(SF.calcChecksum(padded), got))
