"""C04 kernels: every saved file is a valid container with consistent derived fields.

The file written by the real SFNTWriter / TTFont.save is parsed by an independent reader written from the OpenType and WOFF
specifications inside this harness (no code shared with fontTools); table CONTENTS are symbolic.
"""
from sx.api import kernel, shim_all, shim, be_uint, eq_mod32, V, ob, observe, eq, conj, disj, neg, assume, symbolic, le, lt, tobytes, ite, is_int
import fontTools.ttLib.sfnt as SF
import fontTools.misc.sstruct as SS
import fontTools.ttLib.ttFont as TF
import fontTools.ttLib.tables.DefaultTable as DT
from fontTools.ttLib import TTFont, TTLibError

shim_all(SF, SS, TF, DT)


def new_file(data=None):
    if symbolic():
        from sx.shims import SFile
        return SFile(data) if data is not None else SFile()
    from io import BytesIO
    return BytesIO(bytes(data)) if data is not None else BytesIO()


def u16(d, o):
    return be_uint(d[o:o + 2])


def u32(d, o):
    return be_uint(d[o:o + 4])


def tag_at(d, o):
    return bytes(int(d[o + i]) for i in range(4)).decode('latin-1')


def spec_checksum(d, start, length, zero_at=None):
    """OpenType table checksum: sum of big-endian uint32 over the zero-padded table, modulo 2^32"""
    total = 0
    n = (length + 3) // 4
    for w in range(n):
        bs = []
        for i in range(4):
            p = start + 4 * w + i
            inside = (4 * w + i) < length
            b = d[p] if (inside and p < len(d)) else 0
            if zero_at is not None and zero_at <= p < zero_at + 4:
                b = 0
            bs.append(b)
        total = total + be_uint(bs)   # no intermediate masking: at most 2^32 * words, far below 2^62
    return total & 0xFFFFFFFF


def spec_search(n, item=16):
    e = 0
    while (1 << (e + 1)) <= n:
        e += 1
    if n == 0:
        return 0 if False else item * 1, 0, 0   # fontTools writes 2**0*16 for n=0; not reachable with >= 1 table
    sr = (1 << e) * item
    return sr, e, n * item - sr


def check_sfnt(blob, tables, order_must_be=None):
    """independent reader.  tables: dict tag -> input data (bytes-like, possibly symbolic).  Records obligations."""
    d = tobytes(blob)
    d = list(d.b) if hasattr(d, 'b') else list(d)
    n = len(tables)
    ob('header-size', len(d) >= 12 + 16 * n)
    if len(d) < 12 + 16 * n:
        return
    ob('numTables', eq(u16(d, 4), n))
    sr, es, rs = spec_search(n)
    ob('search-fields', conj([eq(u16(d, 6), sr), eq(u16(d, 8), es), eq(u16(d, 10), rs)]))
    entries = []
    for k in range(n):
        o = 12 + 16 * k
        entries.append((tag_at(d, o), u32(d, o + 4), int(u32(d, o + 8)), int(u32(d, o + 12))))
    tags = [e[0] for e in entries]
    ob('directory-sorted-by-tag', tags == sorted(tags))
    ob('directory-complete', sorted(tags) == sorted(tables.keys()))
    spans = []
    head_off = None
    for tag, cks, off, length in entries:
        if tag not in tables:
            continue
        want = tobytes(tables[tag])
        ob('aligned:' + tag, off % 4 == 0 and off >= 12 + 16 * n)
        ob('length:' + tag, length == len(want))
        ob('in-file:' + tag, off + length <= len(d))
        if off + length > len(d):
            continue
        spans.append((off, off + length, tag))
        if tag == 'head':
            head_off = off
    spans.sort()
    ok = True
    pos = 12 + 16 * n
    pad_conds = []
    for a, b, tag in spans:
        if a < pos:
            ok = False
        for p in range(pos, a):
            pad_conds.append(eq(d[p], 0))
        pos = b
    ob('tables-do-not-overlap', ok)
    end = pos
    for p in range(end, len(d)):
        pad_conds.append(eq(d[p], 0))
    ob('gaps-and-tail-are-zero', conj(pad_conds))
    ob('file-length-padded', len(d) == ((end + 3) & ~3) or not spans)
    for tag, cks, off, length in entries:
        if tag not in tables or off + length > len(d):
            continue
        want = tobytes(tables[tag])
        got = d[off:off + length]
        wl = list(want.b) if hasattr(want, 'b') else list(want)
        if tag == 'head' and length >= 12:
            # checkSumAdjustment (bytes 8..12) is the one field the writer owns
            ob('content:' + tag, conj([eq(x, y) for i, (x, y) in enumerate(zip(got, wl)) if not 8 <= i < 12]))
            ob('checksum:' + tag, eq_mod32(cks, spec_checksum(d, off, length, zero_at=off + 8)))
        else:
            ob('content:' + tag, conj([eq(x, y) for x, y in zip(got, wl)]))
            ob('checksum:' + tag, eq_mod32(cks, spec_checksum(d, off, length)))
    if head_off is not None:
        whole = spec_checksum(d, 0, len(d))
        ob('whole-file-checksum-0xB1B0AFBA', eq_mod32(whole, 0xB1B0AFBA))
    if order_must_be is not None:
        # zero-length tables occupy no bytes, so their position among the others is not observable
        phys = [t for a, b, t in spans if b > a]
        ob('physical-order', phys == [t for t in order_must_be if len(tobytes(tables[t])) > 0])


TAGSETS = {
    'a': ['aaaa'], 'ha': ['head', 'aaaa'], 'haz': ['head', 'aaaa', 'zzzz'], 'hDa': ['head', 'DSIG', 'aaaa'],
    'hCa': ['head', 'CFF ', 'aaaa'], 'gh': ['glyf', 'head', 'cmap', 'OS/2'], 'five': ['head', 'aaaa', 'bbbb', 'cccc', 'dddd'],
}


def _lens(tags, lens):
    return {t: (max(l, 12) if t == 'head' and l < 12 else l) for t, l in zip(tags, lens)}


F_W = ['ttLib/sfnt.py:SFNTWriter.__init__', 'ttLib/sfnt.py:SFNTWriter.__setitem__', 'ttLib/sfnt.py:SFNTWriter.close', 'ttLib/sfnt.py:SFNTWriter._calcMasterChecksum',
       'ttLib/sfnt.py:SFNTWriter.writeMasterChecksum', 'ttLib/sfnt.py:calcChecksum', 'ttLib/sfnt.py:DirectoryEntry.saveData', 'ttLib/ttFont.py:getSearchRange',
       'ttLib/ttFont.py:maxPowerOfTwo', 'misc/sstruct.py:pack']


@kernel('C04', funcs=F_W,
        bounds='SFNTWriter driven directly: tag sets of 1-5 tables (with/without head, DSIG, CFF), table lengths from the listed patterns '
               '(0..9 bytes; head 12..16), ALL table bytes symbolic, tables written in the listed order; the output is parsed by the '
               'in-harness spec reader',
        shims=['SFile (BytesIO)', 'struct'],
        quick=[dict(tags='ha', lens=[12, 5], order=[0, 1]), dict(tags='ha', lens=[16, 0], order=[1, 0]), dict(tags='haz', lens=[13, 1, 4], order=[2, 0, 1]),
               dict(tags='a', lens=[3], order=[0]), dict(tags='hDa', lens=[12, 2, 7], order=[0, 1, 2])],
        thorough=[dict(tags='ha', lens=[h, a], order=o) for h in (12, 13, 14, 15, 16) for a in (0, 1, 2, 3, 4, 5, 8, 9) for o in ([0, 1], [1, 0])]
        + [dict(tags='haz', lens=[12, a, z], order=o) for a in (0, 1, 4) for z in (0, 3, 5) for o in ([0, 1, 2], [2, 1, 0], [1, 2, 0])]
        + [dict(tags='five', lens=[14, 1, 2, 3, 4], order=[4, 3, 2, 1, 0]), dict(tags='a', lens=[0], order=[0]), dict(tags='hCa', lens=[12, 6, 1], order=[0, 1, 2])])
def sfnt_writer_container(tags, lens, order):
    tags = TAGSETS[tags]
    ln = _lens(tags, lens)
    tables = {t: (V.bytes('t_' + t.strip().replace('/', '_'), ln[t]) if ln[t] else b'') for t in tags}
    f = new_file()
    w = SF.SFNTWriter(f, len(tags), '\x00\x01\x00\x00')
    for i in order:
        w[tags[i]] = tables[tags[i]]
    w.close()
    blob = f.getvalue()
    observe('file', tobytes(blob))
    check_sfnt(blob, tables, order_must_be=[tags[i] for i in order])


@kernel('C04', funcs=F_W + ['ttLib/ttFont.py:TTFont.save', 'ttLib/ttFont.py:TTFont._save', 'ttLib/ttFont.py:TTFont._writeTable', 'ttLib/ttFont.py:reorderFontTables',
                             'ttLib/ttFont.py:sortedTagList', 'ttLib/sfnt.py:SFNTReader.__init__', 'ttLib/sfnt.py:SFNTReader.__getitem__'],
        bounds='the real TTFont.save (to a stream) of a font holding raw tables with symbolic contents, reorderTables in {True, False, None}: '
               'same spec reader; with reorderTables=True the physical table order is the OpenType-recommended one',
        shims=['SFile (BytesIO)', 'struct'],
        quick=[dict(tags='haz', lens=[12, 3, 6], reorder=True), dict(tags='gh', lens=[4, 16, 2, 1], reorder=True), dict(tags='ha', lens=[14, 5], reorder=None),
               dict(tags='hDa', lens=[12, 1, 2], reorder=True)],
        thorough=[dict(tags=t, lens=l, reorder=r) for t, l in (('haz', [12, 3, 6]), ('gh', [4, 16, 2, 1]), ('hDa', [12, 1, 2]), ('hCa', [13, 2, 5]), ('five', [12, 0, 1, 2, 3]), ('a', [5]))
                  for r in (True, None)])
def ttfont_save_container(tags, lens, reorder):
    tagl = TAGSETS[tags]
    ln = _lens(tagl, lens)
    tables = {t: (V.bytes('t_' + t.strip().replace('/', '_'), ln[t]) if ln[t] else b'') for t in tagl}
    font = TTFont(recalcTimestamp=False)
    for t in tagl:
        tb = DT.DefaultTable(t)
        tb.data = tables[t]
        font[t] = tb
    f = new_file()
    if symbolic():
        from sx import shims as _sh
        TF.BytesIO = _sh.BytesIO_shim
    font.save(f, reorderTables=reorder)
    blob = f.getvalue()
    observe('file', tobytes(blob))
    want_order = None
    if reorder is True:
        # OpenType-recommended order, written from the spec: TrueType: head hhea maxp OS/2 hmtx LTSH VDMX hdmx cmap fpgm prep cvt loca glyf
        # kern name post gasp PCLT; CFF: head hhea maxp OS/2 name cmap post CFF; others alphabetical after; DSIG last
        tt = ['head', 'hhea', 'maxp', 'OS/2', 'hmtx', 'LTSH', 'VDMX', 'hdmx', 'cmap', 'fpgm', 'prep', 'cvt ', 'loca', 'glyf', 'kern', 'name', 'post', 'gasp', 'PCLT']
        cff = ['head', 'hhea', 'maxp', 'OS/2', 'name', 'cmap', 'post', 'CFF ']
        pref = cff if 'CFF ' in tagl else tt
        rest = sorted(t for t in tagl if t not in pref and t != 'DSIG')
        want_order = [t for t in pref if t in tagl] + rest + (['DSIG'] if 'DSIG' in tagl else [])
    check_sfnt(blob, tables, order_must_be=want_order)


@kernel('C04', funcs=['ttLib/ttFont.py:getSearchRange', 'ttLib/ttFont.py:maxPowerOfTwo'],
        bounds='ALL n in [1, 65535] and itemSize in {16, 4, 6}: searchRange = itemSize * 2^floor(log2 n), entrySelector = floor(log2 n), '
               'rangeShift = n*itemSize - searchRange',
        quick=[dict(item=16), dict(item=4)], thorough=[dict(item=16), dict(item=4), dict(item=6), dict(item=2)])
def search_range_spec(item):
    n = V.int('n', 1, 65535)
    sr, es, rs = TF.getSearchRange(n, item)
    observe('fields', [sr, es, rs])
    # spec: 2^es <= n < 2^(es+1)
    p = sr // item if isinstance(sr, int) else sr // item
    ob('power-of-two-bracket', conj([le(p, n), lt(n, p * 2)]))
    ob('entrySelector-is-log2', disj([conj([eq(es, e), eq(p, 1 << e)]) for e in range(0, 17)]))
    ob('rangeShift', eq(rs, n * item - sr))


@kernel('C04', funcs=['ttLib/sfnt.py:calcChecksum'],
        bounds='calcChecksum over symbolic data of the listed lengths (incl. the 4096-byte block boundary through a family of a concrete '
               'zero prefix of 4092..4100 bytes followed by 6 symbolic bytes) equals the spec sum; padding invariance; block additivity',
        shims=['struct'], quick=[dict(prefix=0, n=n) for n in (0, 1, 3, 4, 5, 8, 11)] + [dict(prefix=p, n=6) for p in (4090, 4094, 4096)],
        thorough=[dict(prefix=0, n=n) for n in range(0, 17)] + [dict(prefix=p, n=6) for p in range(4086, 4101)])
def checksum_spec(prefix, n):
    data = V.bytes('data', n) if n else b''
    full = bytes(prefix) + data if not symbolic() else tobytes(bytes(prefix)) + tobytes(data) if prefix else data
    got = SF.calcChecksum(full)
    observe('checksum', got)
    d = tobytes(full)
    d = list(d.b) if hasattr(d, 'b') else list(d)
    ob('equals-spec-sum', eq(got, spec_checksum(d, 0, len(d))))
    padded = full + b'\0' * ((4 - len(d) % 4) % 4) if len(d) % 4 else full
    ob('padding-invariant', eq(SF.calcChecksum(padded), got))


# ------------------------------------------------------------------------------------------ WOFF container
class _CompStub:
    """environment stub for the zlib compressor, used in BOTH modes: the compressor is an arbitrary function whose output for the
    k-th call has length len(data)+d[k] (d in the parameters) and arbitrary (symbolic) content.  The WOFF format says: an entry
    whose compLength equals origLength is stored raw, so whatever the compressor returns, the stored bytes must be readable."""

    def __init__(self, deltas):
        self.deltas = list(deltas)
        self.calls = []

    def __call__(self, data, level=None):
        k = len(self.calls)
        n = max(1, len(data) + self.deltas[k % len(self.deltas)])
        out = V.bytes('zout%d' % k, n)
        self.calls.append((tobytes(data), out))
        return out

    def inverse(self, raw):
        for data, out in self.calls:
            if len(tobytes(out)) == len(raw):
                return data, eq(tobytes(out), tobytes(raw))
        return None, False


def _blist(x):
    x = tobytes(x)
    return list(x.b) if hasattr(x, 'b') else list(x)


@kernel('C04', funcs=F_W + ['ttLib/sfnt.py:WOFFDirectoryEntry.encodeData', 'ttLib/sfnt.py:WOFFDirectoryEntry.__init__', 'ttLib/sfnt.py:WOFFFlavorData.__init__'],
        bounds='SFNTWriter(flavor="woff") driven directly: 1-3 tables (with/without head), lengths from the listed patterns, ALL table bytes '
               'symbolic, private data of 0..5 symbolic bytes; the compressor is an environment stub returning arbitrary bytes of length '
               'len(data)+d, d in {-2,-1,0,+1} per table; output parsed by an in-harness WOFF 1.0 spec reader',
        assumptions=['zlib.compress is modelled as an arbitrary function with output length len(data)+d and arbitrary content (stub in symbolic '
                     'and replay mode); a compressed stream as long as its input does occur with real zlib on short tables'],
        outside=['zlib stream validity', 'WOFF metadata block content'],
        shims=['SFile (BytesIO)', 'struct', 'compress (environment stub)'],
        quick=[dict(tags='ha', lens=[12, 6], d=[0, 0], priv=0), dict(tags='ha', lens=[12, 5], d=[-1, -2], priv=3), dict(tags='a', lens=[4], d=[1], priv=0),
               dict(tags='haz', lens=[13, 3, 6], d=[0, -1, 0], priv=5)],
        thorough=[dict(tags='ha', lens=[h, a], d=[0, d], priv=p) for h in (12, 14) for a in (2, 3, 4, 5, 8) for d in (-2, -1, 0, 1) for p in (0, 1, 4)]
        + [dict(tags='haz', lens=[13, 3, 6], d=[0, dz, da], priv=5) for dz in (-1, 0, 1) for da in (-1, 0, 1)] + [dict(tags='a', lens=[n], d=[d], priv=0) for n in (1, 4, 5) for d in (-1, 0, 1)])
def woff_writer_container(tags, lens, d, priv):
    tagl = TAGSETS[tags]
    ln = _lens(tagl, lens)
    tables = {t: V.bytes('t_' + t.strip(), ln[t]) for t in tagl}
    privdata = V.bytes('priv', priv) if priv else None
    stub = _CompStub(d)
    saved = SF.compress
    SF.compress = stub
    try:
        f = new_file()
        fd = SF.WOFFFlavorData()
        fd.privData = privdata
        w = SF.SFNTWriter(f, len(tagl), '\x00\x01\x00\x00', 'woff', fd)
        for t in tagl:
            w[t] = tables[t]
        w.close()
        blob = f.getvalue()
    finally:
        SF.compress = saved
    observe('file', tobytes(blob))
    dd = _blist(blob)
    n = len(tagl)
    ob('woff-header-size', len(dd) >= 44 + 20 * n)
    if len(dd) < 44 + 20 * n:
        return
    ob('signature', bytes(int(x) for x in dd[0:4]) == b'wOFF')
    ob('flavor', eq(u32(dd, 4), 0x00010000))
    ob('length-field', eq(u32(dd, 8), len(dd)))
    ob('numTables', eq(u16(dd, 12), n))
    ob('reserved-zero', eq(u16(dd, 14), 0))
    ob('totalSfntSize', eq(u32(dd, 16), 12 + 16 * n + sum((ln[t] + 3) & ~3 for t in tagl)))
    ents = []
    for k in range(n):
        o = 44 + 20 * k
        ents.append((tag_at(dd, o), int(u32(dd, o + 4)), int(u32(dd, o + 8)), int(u32(dd, o + 12)), u32(dd, o + 16)))
    etags = [e[0] for e in ents]
    ob('directory-sorted-by-tag', etags == sorted(etags) and sorted(etags) == sorted(tagl))
    spans = []
    decoded = {}
    for tag, off, clen, olen, cks in ents:
        if tag not in tables:
            continue
        ob('aligned:' + tag, off % 4 == 0 and off >= 44 + 20 * n)
        ob('origLength:' + tag, olen == ln[tag])
        ob('compLength<=origLength:' + tag, clen <= olen)
        ob('in-file:' + tag, off + clen <= len(dd))
        if off + clen > len(dd):
            continue
        spans.append((off, off + clen, tag))
        raw = dd[off:off + clen]
        want = _blist(tables[tag])
        if clen == olen:
            # WOFF 1.0: compLength == origLength means the table is stored uncompressed
            # (head bytes 8..12, checkSumAdjustment, are the writer's own field)
            ob('stored-raw-content:' + tag, conj([eq(x, y) for i, (x, y) in enumerate(zip(raw, want)) if not (tag == 'head' and 8 <= i < 12)]))
        else:
            data, same = stub.inverse(raw)
            ob('compressed-stream-is-compressor-output:' + tag, same if data is not None else False)
        ob('origChecksum:' + tag, eq_mod32(cks, spec_checksum(want, 0, len(want), zero_at=8 if tag == 'head' else None)))
    spans.sort()
    pos = 44 + 20 * n
    okk = True
    pads = []
    for a, b, tag in spans:
        if a < pos:
            okk = False
        pads += [eq(dd[p], 0) for p in range(pos, a)]
        pos = b
    ob('tables-do-not-overlap', okk)
    end_tables = (pos + 3) & ~3
    metaoff, metalen, metaorig, privoff, privlen = (int(u32(dd, o)) for o in (24, 28, 32, 36, 40))
    ob('no-metadata', metaoff == 0 and metalen == 0 and metaorig == 0)
    if priv:
        ob('private-block', privoff % 4 == 0 and privoff >= end_tables and privlen == priv and privoff + privlen == len(dd))
        if privoff + privlen <= len(dd):
            ob('private-content', conj([eq(x, y) for x, y in zip(dd[privoff:privoff + privlen], _blist(privdata))]))
            pads += [eq(dd[p], 0) for p in range(pos, privoff)]
    else:
        ob('private-block', privoff == 0 and privlen == 0)
        pads += [eq(dd[p], 0) for p in range(pos, len(dd))]
        ob('file-length-padded', len(dd) == end_tables)
    ob('padding-is-zero', conj(pads))
    if 'head' in tables and ln['head'] >= 12:
        # reconstruct the sfnt the way a WOFF decoder does (tables in file order, 4-byte padded) and sum it
        sr, es, rs = spec_search(n)
        hdr = [0, 1, 0, 0, n >> 8, n & 255, sr >> 8, sr & 255, es >> 8, es & 255, rs >> 8, rs & 255]
        offs = {}
        o = 12 + 16 * n
        for a, b, tag in spans:
            offs[tag] = o
            o += (ln[tag] + 3) & ~3
        direc = []
        for tag, off, clen, olen, cks in ents:
            direc += list(tag.encode('latin-1'))
            direc += [(cks >> s) & 255 for s in (24, 16, 8, 0)]
            direc += [(offs[tag] >> s) & 255 for s in (24, 16, 8, 0)]
            direc += [(olen >> s) & 255 for s in (24, 16, 8, 0)]
        # whole-file sum = sum(directory) + sum over tables of their (padded) sums; every table's sum is its origChecksum field
        # (obligation origChecksum:<tag> above), head's with the adjustment zeroed plus the stored adjustment itself
        total = spec_checksum(hdr + direc, 0, len(hdr) + len(direc))
        for tag, off, clen, olen, cks in ents:
            total = total + cks
            if tag == 'head':
                total = total + u32(dd, off + 8)
        sfnt = None
        ob('reconstructed-sfnt-checksum-0xB1B0AFBA', eq_mod32(total, 0xB1B0AFBA))


# ------------------------------------------------------------------------------------------ derived fields
import fontTools.ttLib.tables._g_l_y_f as GL
import fontTools.ttLib.tables._h_h_e_a as HH
import fontTools.ttLib.tables._m_a_x_p as MX
import fontTools.misc.roundTools as RT
shim_all(GL, HH, MX, RT)


def _simple_glyph(name, n, integer):
    pts = []
    for i in range(n):
        if integer:
            pts.append((V.int('%s_x%d' % (name, i), -3000, 3000, bv=False), V.int('%s_y%d' % (name, i), -3000, 3000, bv=False)))
        else:
            pts.append((V.real('%s_x%d' % (name, i), -3000, 3000), V.real('%s_y%d' % (name, i), -3000, 3000)))
    g = GL.Glyph()
    g.numberOfContours = 1
    g.coordinates = GL.GlyphCoordinates(pts)
    g.endPtsOfContours = [n - 1]
    g.flags = bytearray([1] * n)
    g.program = None
    return g, pts


def _is_rounded_min(k, vals, sign=1):
    """k == floor(m + 1/2) where m = min(vals) (sign=1) or max(vals) (sign=-1): written from the definition of otRound"""
    exists = disj([conj([le(k - 0.5, v), lt(v, k + 0.5)] + [le(sign * v, sign * w) for w in vals]) for v in vals])
    return conj([is_int(k), exists])


@kernel('C04', funcs=['ttLib/tables/_g_l_y_f.py:Glyph.recalcBounds', 'ttLib/tables/_g_l_y_f.py:GlyphCoordinates.calcIntBounds',
                      'ttLib/tables/_g_l_y_f.py:GlyphCoordinates.calcBounds', 'misc/roundTools.py:otRound'],
        bounds='simple glyph of n in 1..4 points, every coordinate a symbolic real in [-3000, 3000] (fractional coordinates occur after '
               'scaling/instancing): xMin/yMin/xMax/yMax == otRound (floor(v+1/2), the OpenType rounding) of the true min/max',
        shims=['array("d") over reals', 'round/int/math.floor'],
        quick=[dict(n=1), dict(n=2), dict(n=3)], thorough=[dict(n=n) for n in (1, 2, 3, 4, 5)])
def glyph_bounds(n):
    g, pts = _simple_glyph('g', n, False)
    g.recalcBounds({})
    observe('bbox', [g.xMin, g.yMin, g.xMax, g.yMax])
    xs = [p[0] for p in pts]
    ys = [p[1] for p in pts]
    ob('xMin', _is_rounded_min(g.xMin, xs, 1))
    ob('yMin', _is_rounded_min(g.yMin, ys, 1))
    ob('xMax', _is_rounded_min(g.xMax, xs, -1))
    ob('yMax', _is_rounded_min(g.yMax, ys, -1))


@kernel('C04', funcs=['ttLib/tables/_g_l_y_f.py:Glyph.recalcBounds', 'ttLib/tables/_g_l_y_f.py:Glyph.tryRecalcBoundsComposite', 'ttLib/tables/_g_l_y_f.py:GlyphComponent._hasOnlyIntegerTranslate',
                      'ttLib/tables/_g_l_y_f.py:GlyphCoordinates.calcIntBounds'],
        bounds='composite glyph of 2 untransformed components with symbolic integer offsets in [-2000, 2000], each component a simple glyph of 2 points with symbolic integer '
               'coordinates in [-3000, 3000] or (per pattern) a glyph without contours; a component whose points all coincide is assumed away (fontTools treats a '
               'degenerate box as "empty component", stated as outside the claim): the composite\'s xMin/yMin/xMax/yMax are the min/max over the translated points of '
               'all components with contours - in particular a component that is flat in one direction only (a hairline) still counts',
        shims=['array("d") over reals'], quick=[dict(pat='ss')], thorough=[dict(pat=p) for p in ('ss', 'se', 'es')])
def composite_bounds(pat):
    table = {}
    allx, ally = [], []
    comp = GL.Glyph()
    comp.numberOfContours = -1
    comp.components = []
    for i, kind in enumerate(pat):
        nm = 'c%d' % i
        if kind == 's':
            g, pts = _simple_glyph(nm, 2, True)
            assume(disj([neg(eq(pts[0][0], pts[1][0])), neg(eq(pts[0][1], pts[1][1]))]))
        else:
            g, pts = GL.Glyph(), []
            g.numberOfContours = 0
        table[nm] = g
        c = GL.GlyphComponent()
        c.glyphName = nm
        c.x, c.y = V.int('dx%d' % i, -2000, 2000, bv=False), V.int('dy%d' % i, -2000, 2000, bv=False)
        c.flags = 0
        comp.components.append(c)
        allx += [p[0] + c.x for p in pts]
        ally += [p[1] + c.y for p in pts]
    comp.recalcBounds(table)
    observe('bbox', [comp.xMin, comp.yMin, comp.xMax, comp.yMax])
    ob('xMin', _minof(comp.xMin, allx, 1))
    ob('yMin', _minof(comp.yMin, ally, 1))
    ob('xMax', _minof(comp.xMax, allx, -1))
    ob('yMax', _minof(comp.yMax, ally, -1))


def _minof(k, vals, sign=1):
    return conj([disj([eq(k, v) for v in vals])] + [le(sign * k, sign * v) for v in vals])


@kernel('C04', funcs=['ttLib/tables/_h_h_e_a.py:table__h_h_e_a.recalc', 'ttLib/tables/_m_a_x_p.py:table__m_a_x_p.recalc', 'ttLib/tables/_g_l_y_f.py:Glyph.getMaxpValues'],
        bounds='font of 2-3 glyphs, each empty (0 contours) or simple per the pattern, with symbolic advance (0..65535), lsb (int16) and glyph '
               'bounding boxes (int16, xMin<=xMax, yMin<=yMax); point counts from the pattern: hhea.advanceWidthMax/minLeftSideBearing/'
               'minRightSideBearing/xMaxExtent, head bbox and flags bit 1, maxp.maxPoints/maxContours vs the OpenType definitions '
               '(glyphs without contours excluded)',
        shims=['builtin min/max fork on comparisons'],
        quick=[dict(pat='s'), dict(pat='se'), dict(pat='ss'), dict(pat='ee')], thorough=[dict(pat=p) for p in ('s', 'e', 'se', 'es', 'ss', 'ee', 'sse', 'ses', 'ees')])
def hhea_maxp_recalc(pat):
    from fontTools.ttLib import newTable
    font = TTFont(recalcTimestamp=False)
    names = ['g%d' % i for i in range(len(pat))]
    font.setGlyphOrder(names)
    glyf = newTable('glyf')
    glyf.glyphs = {}
    glyf.glyphOrder = names
    hmtx = newTable('hmtx')
    hmtx.metrics = {}
    head = newTable('head')
    head.flags = V.int('headflags', 0, 0xFFFF)
    flags0 = head.flags
    hhea = newTable('hhea')
    maxp = newTable('maxp')
    recs = []
    for i, (nm, kind) in enumerate(zip(names, pat)):
        aw = V.int('aw%d' % i, 0, 0xFFFF, bv=False)
        lsb = V.int('lsb%d' % i, -0x8000, 0x7FFF, bv=False)
        hmtx.metrics[nm] = (aw, lsb)
        g = GL.Glyph()
        if kind == 's':
            npts = 2 + i
            g.numberOfContours = 1
            g.endPtsOfContours = [npts - 1]
            g.flags = bytearray([1] * npts)
            g.coordinates = GL.GlyphCoordinates([(0, 0)] * npts)
            g.xMin = V.int('xMin%d' % i, -0x8000, 0x7FFF, bv=False)
            g.xMax = V.int('xMax%d' % i, -0x8000, 0x7FFF, bv=False)
            g.yMin = V.int('yMin%d' % i, -0x8000, 0x7FFF, bv=False)
            g.yMax = V.int('yMax%d' % i, -0x8000, 0x7FFF, bv=False)
            assume(le(g.xMin, g.xMax))
            assume(le(g.yMin, g.yMax))
            recs.append((aw, lsb, g, npts))
        else:
            g.numberOfContours = 0
        glyf.glyphs[nm] = g
    font['glyf'], font['hmtx'], font['head'], font['hhea'], font['maxp'] = glyf, hmtx, head, hhea, maxp
    hhea.recalc(font)
    maxp.recalc(font)
    observe('hhea', [hhea.advanceWidthMax, hhea.minLeftSideBearing, hhea.minRightSideBearing, hhea.xMaxExtent])
    observe('head', [head.xMin, head.yMin, head.xMax, head.yMax])
    ob('advanceWidthMax', _minof(hhea.advanceWidthMax, [m[0] for m in hmtx.metrics.values()], -1))
    ob('numGlyphs', maxp.numGlyphs == len(pat))
    if recs:
        ob('minLeftSideBearing', _minof(hhea.minLeftSideBearing, [r[1] for r in recs], 1))
        ob('minRightSideBearing', _minof(hhea.minRightSideBearing, [r[0] - r[1] - (r[2].xMax - r[2].xMin) for r in recs], 1))
        ob('xMaxExtent', _minof(hhea.xMaxExtent, [r[1] + (r[2].xMax - r[2].xMin) for r in recs], -1))
        ob('head.xMin', _minof(head.xMin, [r[2].xMin for r in recs], 1))
        ob('head.yMin', _minof(head.yMin, [r[2].yMin for r in recs], 1))
        ob('head.xMax', _minof(head.xMax, [r[2].xMax for r in recs], -1))
        ob('head.yMax', _minof(head.yMax, [r[2].yMax for r in recs], -1))
        ob('maxPoints', maxp.maxPoints == max(r[3] for r in recs) and maxp.maxContours == 1)
        all_lsb = conj([eq(r[1], r[2].xMin) for r in recs])
    else:
        ob('no-outlines-all-zero', conj([eq(v, 0) for v in (hhea.minLeftSideBearing, hhea.minRightSideBearing, hhea.xMaxExtent, head.xMin, head.yMin, head.xMax, head.yMax)]))
        ob('maxPoints', maxp.maxPoints == 0 and maxp.maxContours == 0)
        all_lsb = True
    bit1 = (head.flags & 2) != 0 if not isinstance(head.flags, int) else bool(head.flags & 2)
    ob('head.flags-bit1-iff-all-lsb-equal-xMin', eq(bit1, all_lsb) if symbolic() else bool(bit1) == bool(all_lsb))
    ob('head.flags-other-bits-kept', eq(head.flags & ~2, flags0 & ~2))


# ------------------------------------------------------------------------------------------------ WOFF2 glyf transform: triplet encoding
import fontTools.ttLib.woff2 as W2
shim_all(W2)


def spec_triplet(flag, data):
    """WOFF2 spec section 5.2 'Triplet Encoding': returns (dx, dy, nbytes, onCurve bit) for a flag byte and the following data bytes.
    Works on symbolic flag / data bytes: only the size CLASS of the flag is decided (a fork the encoder's path has already fixed)."""
    on = ite(eq(flag >> 7, 0), 1, 0)
    i = flag & 0x7F

    def sgn(bit, v):
        return ite(eq(bit, 0), -v, v)
    if bool(lt(i, 10)):
        return 0, sgn(i & 1, ((i >> 1) << 8) + data[0]), 1, on
    if bool(lt(i, 20)):
        j = i - 10
        return sgn(j & 1, ((j >> 1) << 8) + data[0]), 0, 1, on
    if bool(lt(i, 84)):
        j = i - 20
        a, b, s = j // 16, (j % 16) // 4, j % 4
        return sgn(s & 1, 1 + 16 * a + (data[0] >> 4)), sgn(s & 2, 1 + 16 * b + (data[0] & 15)), 1, on
    if bool(lt(i, 120)):
        j = i - 84
        a, b, s = j // 12, (j % 12) // 4, j % 4
        return sgn(s & 1, 1 + 256 * a + data[0]), sgn(s & 2, 1 + 256 * b + data[1]), 2, on
    if bool(lt(i, 124)):
        s = i - 120
        return sgn(s & 1, (data[0] << 4) + (data[1] >> 4)), sgn(s & 2, ((data[1] & 15) << 8) + data[2]), 3, on
    s = i - 124
    return sgn(s & 1, (data[0] << 8) + data[1]), sgn(s & 2, (data[2] << 8) + data[3]), 4, on


@kernel('C04', funcs=['ttLib/woff2.py:WOFF2GlyfTable._encodeTriplets', 'ttLib/woff2.py:WOFF2GlyfTable._decodeTriplets'],
        bounds='the WOFF2 glyf-transform point encoding for one point (the encoder and decoder treat points independently; two points square the path count and did not finish in 60 CPU-minutes, so sequences of points are outside the claim): every coordinate delta (dx, dy) over int16 x int16 and the on-curve bit symbolic '
               '(all six size classes and their boundaries 1280 / 65 / 769 / 4096 are solver forks): the flag + data bytes decode, by a decoder written '
               'from the WOFF2 spec table, to the same deltas; fontTools\' own decoder returns the same points',
        shims=['array', 'bytes'], quick=[dict(n=1)], thorough=[dict(n=1)], max_paths=100000)
def woff2_triplets_roundtrip(n):
    import types
    pts, flags = [], []
    x = y = 0
    deltas = []
    for i in range(n):
        dx = V.int('dx%d' % i, -32768, 32767)
        dy = V.int('dy%d' % i, -32768, 32767)
        on = V.int('on%d' % i, 0, 1)
        x, y = x + dx, y + dy
        assume(conj([le(-32768, x), le(x, 32767), le(-32768, y), le(y, 32767)]))
        pts.append((x, y))
        flags.append(on)
        deltas.append((dx, dy, on))
    g = GL.Glyph()
    g.numberOfContours = 1
    g.coordinates = GL.GlyphCoordinates(pts)
    g.flags = GL.array.array('B', flags)
    g.endPtsOfContours = [n - 1]
    enc = types.SimpleNamespace(flagStream=b'', glyphStream=b'')
    W2.WOFF2GlyfTable._encodeTriplets(enc, g)
    fs, gs = tobytes(enc.flagStream), tobytes(enc.glyphStream)
    observe('streams', [fs, gs])
    ob('one-flag-per-point', len(fs) == n)
    fl, data = _blist(fs), _blist(gs)
    pos = 0
    conds = []
    for i in range(n):
        ddx, ddy, nb, on = spec_triplet(fl[i], data[pos:pos + 4] + [0, 0, 0, 0])
        pos += nb
        conds.append(conj([eq(ddx, deltas[i][0]), eq(ddy, deltas[i][1]), eq(on, deltas[i][2])]))
    ob('spec-decoder-recovers-deltas', conj(conds))
    ob('all-data-bytes-used', pos == len(data))
    dec = types.SimpleNamespace(flagStream=enc.flagStream, glyphStream=enc.glyphStream)
    g2 = GL.Glyph()
    g2.endPtsOfContours = [n - 1]
    W2.WOFF2GlyfTable._decodeTriplets(dec, g2)
    ob('decoder-recovers-points', conj([conj([eq(g2.coordinates[i][0], pts[i][0]), eq(g2.coordinates[i][1], pts[i][1]), eq(g2.flags[i], flags[i])]) for i in range(n)]))


# ------------------------------------------------------------------------------------------------ TrueType collections with shared tables
import fontTools.ttLib.ttCollection as TCO
shim_all(TCO)


@kernel('C04', funcs=['ttLib/ttCollection.py:TTCollection.save', 'ttLib/ttFont.py:TTFont._save', 'ttLib/ttFont.py:TTFont._writeTable', 'ttLib/sfnt.py:writeTTCHeader',
                      'ttLib/sfnt.py:SFNTReader.__init__', 'ttLib/sfnt.py:readTTCHeader'],
        bounds='collection of 2 fonts, each with 2 raw tables of the same tags and equal lengths (4 / 8 bytes) and ALL bytes symbolic (so the two fonts\' tables '
               'may be equal, may differ, may differ with equal checksums): saved with shareTables in {True, False} and re-read member by member with the '
               'real reader, every font gets back exactly its own table bytes; the TTC header counts and offsets are consistent',
        shims=['SFile', 'struct', 'table cache keyed by bytes: collide mode'], quick=[dict(share=True), dict(share=False)], collide=True, max_paths=100000)
def ttc_members_keep_their_tables(share):
    fonts, want = [], []
    for i in range(2):
        f = TTFont(recalcTimestamp=False, recalcBBoxes=False)
        w = {}
        for tag, n in (('aaaa', 4), ('zzzz', 8)):
            t = DT.DefaultTable(tag)
            t.data = V.bytes('f%d_%s' % (i, tag), n)
            f[tag] = t
            w[tag] = t.data
        fonts.append(f)
        want.append(w)
    coll = TCO.TTCollection()
    coll.fonts = fonts
    if symbolic():
        from sx import shims as _sh
        TCO.BytesIO = _sh.BytesIO_shim
    out = new_file()
    coll.save(out, shareTables=share)
    blob = out.getvalue()
    observe('length', len(tobytes(blob)))
    d = _blist(blob)
    ob('ttc-header', bytes(int(x) for x in d[0:4]) == b'ttcf' and bool(eq(u32(d, 8), 2)))
    conds = []
    for i in range(2):
        r = SF.SFNTReader(new_file(blob), fontNumber=i)
        for tag in ('aaaa', 'zzzz'):
            got = tobytes(r[tag])
            conds.append(eq(got, tobytes(want[i][tag])) if len(got) == len(tobytes(want[i][tag])) else False)
    ob('every-member-reads-its-own-tables', conj(conds))


# ------------------------------------------------------------------------------------------------ tables whose header depends on another table's compile
import fontTools.ttLib.tables._v_h_e_a as VH
import fontTools.ttLib.tables._h_m_t_x as HMX
import fontTools.ttLib.tables._v_m_t_x as VMX
shim_all(VH, HMX, VMX)


def _metrics_header(tag, count_name):
    t = newTable_(tag)
    fields = {'hhea': ['ascent', 'descent', 'lineGap', 'advanceWidthMax', 'minLeftSideBearing', 'minRightSideBearing', 'xMaxExtent', 'caretSlopeRise', 'caretSlopeRun', 'caretOffset',
                       'reserved0', 'reserved1', 'reserved2', 'reserved3', 'metricDataFormat'],
              'vhea': ['ascent', 'descent', 'lineGap', 'advanceHeightMax', 'minTopSideBearing', 'minBottomSideBearing', 'yMaxExtent', 'caretSlopeRise', 'caretSlopeRun', 'caretOffset',
                       'reserved1', 'reserved2', 'reserved3', 'reserved4', 'metricDataFormat']}[tag]
    t.tableVersion = 0x00010000
    for f in fields:
        setattr(t, f, 0)
    return t


def newTable_(tag):
    from fontTools.ttLib import newTable
    return newTable(tag)


@kernel('C04', funcs=['ttLib/ttFont.py:TTFont._writeTable', 'ttLib/ttFont.py:TTFont._save', 'ttLib/tables/_h_m_t_x.py:table__h_m_t_x.compile', 'ttLib/tables/_h_h_e_a.py:table__h_h_e_a.compile',
                      'ttLib/tables/_v_h_e_a.py:table__v_h_e_a.compile'],
        bounds='font of n in 2..4 glyphs with hhea + hmtx and vhea + vmtx table OBJECTS (advances and bearings symbolic, so the trimming of trailing equal '
               'advances is a solver fork) whose header count starts at the untrimmed value n: in the SAVED file, numberOfHMetrics / numberOfVMetrics read '
               'from the hhea / vhea bytes describe the hmtx / vmtx bytes (4*k + 2*(n-k) == length) - i.e. the metrics table is compiled before its header',
        shims=['SFile', 'struct', 'sstruct', 'array'], quick=[dict(n=2), dict(n=3)], thorough=[dict(n=2), dict(n=3), dict(n=4)])
def metrics_headers_match_saved_tables(n):
    names = ['g%d' % i for i in range(n)]
    font = TTFont(recalcTimestamp=False, recalcBBoxes=False)
    font.setGlyphOrder(names)
    maxp = newTable_('maxp')
    maxp.tableVersion, maxp.numGlyphs = 0x00005000, n
    font['maxp'] = maxp
    for htag, mtag, cname in (('hhea', 'hmtx', 'numberOfHMetrics'), ('vhea', 'vmtx', 'numberOfVMetrics')):
        h = _metrics_header(htag, cname)
        setattr(h, cname, n)
        m = newTable_(mtag)
        m.metrics = {g: (V.int('%s_adv%d' % (mtag, i), 0, 0xFFFF), V.int('%s_sb%d' % (mtag, i), -0x8000, 0x7FFF)) for i, g in enumerate(names)}
        font[htag], font[mtag] = h, m
    if symbolic():
        from sx import shims as _sh
        TF.BytesIO = _sh.BytesIO_shim
    out = new_file()
    font.save(out, reorderTables=None)
    r = SF.SFNTReader(new_file(out.getvalue()))
    for htag, mtag in (('hhea', 'hmtx'), ('vhea', 'vmtx')):
        hb, mb = _blist(r[htag]), _blist(r[mtag])
        k = u16(hb, 34)
        observe(htag + '.count', k)
        ob(htag + ':count-in-range', conj([le(1, k), le(k, n)]))
        ob(mtag + ':length-matches-header-count', eq(4 * k + 2 * (n - k), len(mb)))
