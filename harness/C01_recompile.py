"""C01 kernels: recompiling is lossless and reaches a fixed point.

Direction bytes -> object -> bytes' -> object' -> bytes'' on ARBITRARY (symbolic) table bytes the decoder accepts:
  (i)  object' == object  (content preserved), (ii) bytes'' == bytes' (fixed point at the second generation),
  (iii) a decoder that raises on the symbolic bytes ends the path as "rejected" (C20 owns error types).
"""
from sx.api import instrument, kernel, shim_all, shim, be_uint, V, ob, observe, eq, conj, disj, neg, assume, symbolic, le, lt, tobytes, ite, is_int, implies, cut
import fontTools.ttLib.tables._g_l_y_f as GL
import fontTools.ttLib.tables._h_m_t_x as HM
import fontTools.ttLib.tables._k_e_r_n as KE
import fontTools.ttLib.tables._l_o_c_a as LO
import fontTools.ttLib.tables.ttProgram as TP
import fontTools.misc.roundTools as RT
import fontTools.misc.fixedTools as FT
import fontTools.ttLib.ttFont as TF
import fontTools.ttLib.tables.otTables as ot
import fontTools.ttLib.tables.otBase as OB
import fontTools.ttLib.tables.otConverters as OC
import fontTools.cffLib as CF
import fontTools.misc.sstruct as SS
from fontTools.ttLib import TTLibError
from harness.common import Rec, blist, s16, s8, SymFont
from harness.C02_roundtrip import Stub

shim_all(GL, HM, KE, LO, TP, RT, FT, TF, ot, OB, OC, CF, SS)
instrument(GL.Glyph)
instrument(OB)


def new_file(data=b''):
    if symbolic():
        from sx.shims import SFile
        return SFile(data)
    from io import BytesIO
    return BytesIO(bytes(data))


def generations(data, decode, encode, same, label=''):
    """bytes -> obj -> bytes' -> obj' -> bytes''"""
    try:
        o0 = decode(data)
    except (TTLibError, AssertionError, ValueError, IndexError, KeyError, OverflowError, GL.struct.error) as e:
        ob(label + 'rejected', True)
        return None
    b1 = encode(o0)
    observe(label + 'gen1', tobytes(b1))
    o1 = decode(b1)
    ob(label + 'content-preserved', same(o0, o1))
    b2 = encode(o1)
    ob(label + 'fixed-point', eq(tobytes(b1), tobytes(b2)))
    ob(label + 'not-longer-than-needed', len(tobytes(b2)) == len(tobytes(b1)))
    return o0


# ---------------------------------------------------------------------------------------------- hmtx
@kernel('C01', funcs=['ttLib/tables/_h_m_t_x.py:table__h_m_t_x.decompile', 'ttLib/tables/_h_m_t_x.py:table__h_m_t_x.compile'],
        bounds='hmtx of n glyphs with numberOfHMetrics k (all 1 <= k <= n <= 4, quick n <= 3): every byte symbolic; 0..2 trailing excess bytes',
        shims=['struct', 'array'],
        quick=[dict(n=n, k=k, extra=0) for n in (1, 2, 3) for k in range(1, n + 1)] + [dict(n=2, k=1, extra=2)],
        thorough=[dict(n=n, k=k, extra=e) for n in (1, 2, 3, 4) for k in range(1, n + 1) for e in (0, 1, 2)])
def hmtx_generations(n, k, extra):
    names = ['g%d' % i for i in range(n)]
    data = V.bytes('data', 4 * k + 2 * (n - k) + extra)
    hhea = Rec(numberOfHMetrics=k)
    font = Stub(names, hhea=hhea, maxp=Rec(numGlyphs=n))

    def dec(d):
        t = HM.table__h_m_t_x()
        t.decompile(d, font)
        return t

    def enc(t):
        return t.compile(font)

    def same(a, b):
        return conj([conj([eq(a.metrics[nm][0], b.metrics[nm][0]), eq(a.metrics[nm][1], b.metrics[nm][1])]) for nm in names])
    generations(data, dec, enc, same)


# ---------------------------------------------------------------------------------------------- loca
@kernel('C01', funcs=['ttLib/tables/_l_o_c_a.py:table__l_o_c_a.decompile', 'ttLib/tables/_l_o_c_a.py:table__l_o_c_a.compile'],
        bounds='loca of n in 1..3 glyphs, short and long format, every byte symbolic',
        shims=['array'], quick=[dict(n=n, long=l) for n in (1, 2) for l in (0, 1)], thorough=[dict(n=n, long=l) for n in (1, 2, 3) for l in (0, 1)])
def loca_generations(n, long):
    data = V.bytes('data', (4 if long else 2) * (n + 1))
    head = Rec(indexToLocFormat=long)
    font = Stub(['g%d' % i for i in range(n)], head=head, maxp=Rec(numGlyphs=n))

    def dec(d):
        t = LO.table__l_o_c_a()
        t.decompile(d, font)
        return t

    def enc(t):
        return t.compile(font)

    def same(a, b):
        return conj([eq(x, y) for x, y in zip(a.locations, b.locations)]) if len(a.locations) == len(b.locations) else False
    generations(data, dec, enc, same)


# ---------------------------------------------------------------------------------------------- glyf components
@kernel('C01', funcs=['ttLib/tables/_g_l_y_f.py:GlyphComponent.decompile', 'ttLib/tables/_g_l_y_f.py:GlyphComponent.compile'],
        bounds='one component record of 12 symbolic bytes + 4 bytes of slack: all 16 flag bits, glyph id < 4, arguments and transform words symbolic',
        shims=['struct'], quick=[dict()])
def component_generations():
    data = V.bytes('data', 16)
    names = ['a', 'b', 'c', 'd']
    assume(eq(data[2], 0))
    assume(le(data[3], 3))

    class Gt:
        def getGlyphID(self, name):
            return names.index(name)

        def getGlyphName(self, g):
            return names[int(g)]
    gt = Gt()
    state = {}

    def dec(d):
        c = GL.GlyphComponent()
        more, hi, rest = c.decompile(d, gt)
        c._more, c._hi = more, hi
        return c

    def enc(c):
        return c.compile(c._more, c._hi, gt)

    def same(a, b):
        conds = [a.glyphName == b.glyphName, eq(a.flags, b.flags), eq(a._more != 0, b._more != 0), eq(a._hi != 0, b._hi != 0)]
        for att in ('x', 'y', 'firstPt', 'secondPt'):
            if hasattr(a, att) != hasattr(b, att):
                return False
            if hasattr(a, att):
                conds.append(eq(getattr(a, att), getattr(b, att)))
        if hasattr(a, 'transform') != hasattr(b, 'transform'):
            return False
        if hasattr(a, 'transform'):
            conds += [eq(a.transform[i][j], b.transform[i][j]) for i in (0, 1) for j in (0, 1)]
        return conj(conds)
    generations(data, dec, enc, same)


# ---------------------------------------------------------------------------------------------- glyf simple glyph
@kernel('C01', funcs=['ttLib/tables/_g_l_y_f.py:Glyph.decompileCoordinates', 'ttLib/tables/_g_l_y_f.py:Glyph.decompileCoordinatesRaw', 'ttLib/tables/_g_l_y_f.py:Glyph.compileCoordinates',
                      'ttLib/tables/_g_l_y_f.py:Glyph.compileDeltasGreedy'],
        bounds='simple glyph body of one contour with npts in 1..3 points: endPts and instructionLength (0) concrete, then L symbolic bytes of '
               'flags (all 8 bits, incl. repeat) and coordinates; decoder-rejected inputs (too little data, bad repeat counts) end the path',
        shims=['struct', 'array', 'bytearray'],
        quick=[dict(npts=1, L=L) for L in (1, 3, 5)] + [dict(npts=2, L=L) for L in (2, 4, 6)],
        thorough=[dict(npts=1, L=L) for L in (1, 2, 3, 4, 5)] + [dict(npts=2, L=L) for L in (2, 3, 4, 5, 6, 7)] + [dict(npts=3, L=L) for L in (2, 3, 5, 6)],
        max_paths=300000)
def simple_glyph_generations(npts, L):
    body = V.bytes('body', L)
    data = tobytes(bytes([0, npts - 1, 0, 0])) + body if symbolic() else bytes([0, npts - 1, 0, 0]) + body

    def dec(d):
        g = GL.Glyph()
        g.numberOfContours = 1
        g.decompileCoordinates(d)
        return g

    def enc(g):
        return g.compileCoordinates()

    def same(a, b):
        if len(a.coordinates) != len(b.coordinates):
            return False
        return conj([conj([eq(a.coordinates[i][0], b.coordinates[i][0]), eq(a.coordinates[i][1], b.coordinates[i][1]), eq(a.flags[i], b.flags[i])])
                     for i in range(len(a.coordinates))] + [a.endPtsOfContours == b.endPtsOfContours])
    generations(data, dec, enc, same)


# ---------------------------------------------------------------------------------------------- kern format 0
@kernel('C01', funcs=['ttLib/tables/_k_e_r_n.py:KernTable_format_0.decompile', 'ttLib/tables/_k_e_r_n.py:KernTable_format_0.compile'],
        bounds='kern format-0 subtable (Windows header) with n in 1..2 pairs: coverage, search fields, glyph ids (< 4) and values symbolic; pairs with '
               'equal keys collapse in the decoder (dict), which the fixed point must absorb',
        shims=['struct', 'array'], quick=[dict(n=1), dict(n=2)], conc_cap=80, collide=True)
def kern0_generations(n):
    names = ['a', 'b', 'c', 'd']
    body = V.bytes('body', 8 + 6 * n)
    length = 6 + 8 + 6 * n
    hdr = bytes([0, 0, length >> 8, length & 255, 0])
    cov = V.bytes('cov', 1)
    data = tobytes(hdr) + tobytes(cov) + tobytes(body) if symbolic() else hdr + cov + body
    assume(eq(body[0], 0))
    assume(eq(body[1], n))
    for i in range(n):
        o = 8 + 6 * i
        assume(eq(body[o], 0))
        assume(le(body[o + 1], 3))
        assume(eq(body[o + 2], 0))
        assume(le(body[o + 3], 3))
    font = Stub(names)

    def dec(d):
        st = KE.KernTable_format_0(False)
        st.decompile(d, font)
        return st

    def enc(st):
        return st.compile(font)

    def same(a, b):
        if sorted(a.kernTable) != sorted(b.kernTable):
            return False
        return conj([eq(a.kernTable[k], b.kernTable[k]) for k in a.kernTable] + [eq(a.coverage, b.coverage)])
    generations(data, dec, enc, same)


# ---------------------------------------------------------------------------------------------- OpenType Layout Coverage / ClassDef
def _otl_codec(cls, font):
    def dec(d):
        r = OB.OTTableReader(d)
        t = cls()
        t.decompile(r, font)
        return t

    def enc(t):
        w = OB.OTTableWriter()
        t.compile(w, font)
        return w.getAllData()
    return dec, enc


@kernel('C01', funcs=['ttLib/tables/otTables.py:Coverage.postRead', 'ttLib/tables/otTables.py:Coverage.preWrite', 'ttLib/tables/otBase.py:BaseTable.decompile',
                      'ttLib/tables/otBase.py:BaseTable.compile', 'ttLib/tables/otBase.py:OTTableWriter.getAllData', 'ttLib/tables/otConverters.py:GlyphID.readArray'],
        bounds='Coverage table read from symbolic bytes over a 5-glyph font: format 1 with 1-3 symbolic glyph ids (any order, also unsorted), '
               'format 2 with 1-2 range records (start, end, startCoverageIndex symbolic; glyph ids < 5); the glyph LIST (order = coverage '
               'index) must survive, and re-saving must be stable',
        shims=['struct', 'array', 'OTTableReader/Writer run unmodified on proxies'],
        quick=[dict(fmt=1, n=2), dict(fmt=1, n=3), dict(fmt=2, n=1), dict(fmt=2, n=2)],
        thorough=[dict(fmt=1, n=1), dict(fmt=1, n=2), dict(fmt=1, n=3), dict(fmt=1, n=4), dict(fmt=2, n=1), dict(fmt=2, n=2), dict(fmt=2, n=3)],
        conc_cap=80, max_paths=200000)
def coverage_generations(fmt, n):
    names = ['g%d' % i for i in range(5)]
    font = Stub(names)
    font.lazy = False
    font.getGlyphNameMany = lambda lst: [font.getGlyphName(g) for g in lst]
    font.getGlyphIDMany = lambda lst: [font.getGlyphID(g) for g in lst]
    if fmt == 1:
        ids = [V.int('gid%d' % i, 0, 4) for i in range(n)]
        raw = [0, 1, 0, n]
        for g in ids:
            raw += [0, g]
    else:
        raw = [0, 2, 0, n]
        for i in range(n):
            s = V.int('start%d' % i, 0, 4)
            e = V.int('end%d' % i, 0, 4)
            ci = V.int('sci%d' % i, 0, 6)
            assume(le(s, e))
            raw += [0, s, 0, e, 0, ci]
    data = tobytes(raw) if symbolic() else bytes(raw)
    dec, enc = _otl_codec(ot.Coverage, font)

    def same(a, b):
        return a.glyphs == b.glyphs
    generations(data, dec, enc, same)


@kernel('C01', funcs=['ttLib/tables/otTables.py:ClassDef.postRead', 'ttLib/tables/otTables.py:ClassDef.preWrite', 'ttLib/tables/otBase.py:BaseTable.decompile',
                      'ttLib/tables/otBase.py:BaseTable.compile'],
        bounds='ClassDef table read from symbolic bytes over a 5-glyph font: format 1 (start glyph + 1-3 symbolic class values), format 2 with '
               '1-2 class range records (start <= end < 5, class symbolic 0..3)',
        shims=['struct', 'array'], quick=[dict(fmt=1, n=2), dict(fmt=2, n=1), dict(fmt=2, n=2)],
        thorough=[dict(fmt=1, n=1), dict(fmt=1, n=2), dict(fmt=1, n=3), dict(fmt=2, n=1), dict(fmt=2, n=2), dict(fmt=2, n=3)], conc_cap=80, max_paths=200000)
def classdef_generations(fmt, n):
    names = ['g%d' % i for i in range(5)]
    font = Stub(names)
    font.lazy = False
    font.getGlyphNameMany = lambda lst: [font.getGlyphName(g) for g in lst]
    font.getGlyphIDMany = lambda lst: [font.getGlyphID(g) for g in lst]
    if fmt == 1:
        st = V.int('start', 0, 4)
        assume(le(st + n, 5))
        raw = [0, 1, 0, st, 0, n]
        for i in range(n):
            raw += [0, V.int('cls%d' % i, 0, 3)]
    else:
        raw = [0, 2, 0, n]
        for i in range(n):
            s = V.int('start%d' % i, 0, 4)
            e = V.int('end%d' % i, 0, 4)
            c = V.int('cls%d' % i, 0, 3)
            assume(le(s, e))
            raw += [0, s, 0, e, 0, c]
    data = tobytes(raw) if symbolic() else bytes(raw)
    dec, enc = _otl_codec(ot.ClassDef, font)

    def same(a, b):
        if sorted(a.classDefs) != sorted(b.classDefs):
            return False
        return conj([eq(a.classDefs[k], b.classDefs[k]) for k in a.classDefs])
    generations(data, dec, enc, same)


# ---------------------------------------------------------------------------------------------- CFF INDEX header
class _Item:
    def __init__(self, n):
        self.n = n

    def getDataLength(self):
        return self.n

    def toFile(self, f):
        pass


@kernel('C01', funcs=['cffLib/__init__.py:IndexCompiler.toFile', 'cffLib/__init__.py:IndexCompiler.getOffsets', 'cffLib/__init__.py:IndexCompiler.getDataLength',
                      'cffLib/__init__.py:calcOffSize', 'cffLib/__init__.py:Index.__init__'],
        bounds='CFF / CFF2 INDEX of n in 1..3 objects whose byte LENGTHS are symbolic in [0, 2^24+300] (object data itself is not written: the '
               'header arithmetic is the subject): count, offSize, offset array per the CFF spec; offSize is minimal and every offset fits; '
               'the real Index reader recovers the offsets',
        shims=['SFile', 'struct'], quick=[dict(n=1, cff2=False), dict(n=2, cff2=False), dict(n=1, cff2=True)],
        thorough=[dict(n=n, cff2=c) for n in (1, 2, 3) for c in (False, True)])
def cff_index_header(n, cff2):
    lens = [V.int('len%d' % i, 0, (1 << 24) + 300) for i in range(n)]
    items = [_Item(l) for l in lens]
    comp = CF.IndexCompiler(items, None, Rec(isCFF2=cff2))
    f = new_file()
    comp.toFile(f)
    hdr = f.getvalue()
    observe('header', tobytes(hdr))
    d = blist(hdr)
    cs = 4 if cff2 else 2
    ob('count', eq(be_uint(d[0:cs]), n))
    offsize = d[cs]
    ob('offSize-range', conj([le(1, offsize), le(offsize, 4)]))
    k = int(offsize)
    ob('header-length', len(d) == cs + 1 + k * (n + 1))
    want = [1]
    for l in lens:
        want.append(want[-1] + l)
    got = [be_uint(d[cs + 1 + k * i:cs + 1 + k * (i + 1)]) for i in range(n + 1)]
    ob('offsets', conj([eq(g, w) for g, w in zip(got, want)]))
    ob('offSize-minimal', conj([lt(want[-1], 1 << (8 * k)), disj([k == 1, le(1 << (8 * (k - 1)), want[-1])])]))
    ob('getDataLength', eq(comp.getDataLength(), len(d) + want[-1] - 1))
    # the real reader on the header
    f2 = new_file(hdr)
    try:
        idx = CF.Index(f2, isCFF2=cff2)
    except AssertionError:
        ob('reader-accepts', False)
        return
    ob('reader-offsets', conj([eq(g, w) for g, w in zip(idx.offsets, want)]) if len(idx.offsets) == n + 1 else False)


# ---------------------------------------------------------------------------------------------- raw pass-through of untouched tables
import sys as _sys
import fontTools.ttLib.sfnt as SF
import fontTools.ttLib.tables.DefaultTable as DT
from fontTools.ttLib import TTFont
shim_all(SF, DT)


def _build_sfnt(tables):
    """harness-side writer from the spec (concrete directory, symbolic table data), tables at 4-byte aligned offsets"""
    tags = sorted(tables)
    n = len(tags)
    out = [0, 1, 0, 0, 0, n, 0, 0, 0, 0, 0, 0]
    off = 12 + 16 * n
    body = []
    for t in tags:
        d = blist(tables[t])
        out += list(t.encode('latin-1')) + [0, 0, 0, 0] + [(off >> s) & 255 for s in (24, 16, 8, 0)] + [(len(d) >> s) & 255 for s in (24, 16, 8, 0)]
        pad = (4 - len(d) % 4) % 4
        body += d + [0] * pad
        off += len(d) + pad
    return out + body


class _Zlib:
    """environment stub pair for zlib (both modes): compress returns arbitrary bytes of length len(data)+d, decompress inverts exactly
    the streams compress produced and rejects everything else"""

    def __init__(self, deltas):
        import zlib
        self.error = zlib.error
        self.deltas = list(deltas)
        self.calls = []

    def compress(self, data, level=None):
        # a function: equal inputs give equal outputs
        for dd, out in self.calls:
            if len(tobytes(dd)) == len(tobytes(data)) and bool(eq(tobytes(dd), tobytes(data))):
                return out
        k = len(self.calls)
        n = max(1, len(data) + self.deltas[k % len(self.deltas)])
        out = V.bytes('zout%d' % k, n)
        self.calls.append((data, out))
        return out

    def decompress(self, raw, *a):
        for data, out in self.calls:
            if len(tobytes(out)) == len(tobytes(raw)) and bool(eq(tobytes(out), tobytes(raw))):
                return data
        raise self.error('Error -3 while decompressing data: incorrect header check')


@kernel('C01', funcs=['ttLib/ttFont.py:TTFont.__init__', 'ttLib/ttFont.py:TTFont.save', 'ttLib/ttFont.py:TTFont._save', 'ttLib/ttFont.py:TTFont._writeTable',
                      'ttLib/ttFont.py:TTFont.getTableData', 'ttLib/sfnt.py:SFNTReader.__init__', 'ttLib/sfnt.py:SFNTReader.__getitem__', 'ttLib/sfnt.py:SFNTWriter.__setitem__',
                      'ttLib/sfnt.py:SFNTWriter.close', 'ttLib/sfnt.py:WOFFDirectoryEntry.encodeData', 'ttLib/sfnt.py:WOFFDirectoryEntry.decodeData'],
        bounds='an sfnt file with 1-3 tables of unknown tags (lengths from the patterns, ALL table bytes symbolic) is opened with TTFont (lazy: no '
               'table is ever loaded), saved with flavor in {None, woff} and re-read with SFNTReader: every table comes back byte for byte, and a '
               'second generation (open the result, save again) is byte-identical to the first; WOFF compressor = environment stub (see C04)',
        assumptions=['zlib modelled as an arbitrary injective-on-its-outputs function pair (compress output length len+d, decompress inverts it)'],
        shims=['SFile', 'struct', 'zlib (environment stub)'],
        quick=[dict(lens=[5], flavor=None), dict(lens=[3, 8], flavor=None), dict(lens=[6], flavor='woff', d=[0]), dict(lens=[4, 7], flavor='woff', d=[-1, 0])],
        thorough=[dict(lens=l, flavor=None) for l in ([0], [1], [4], [5], [3, 8], [4, 4, 1], [9, 0, 2])]
        + [dict(lens=l, flavor='woff', d=d) for l in ([6], [4, 7], [5, 5]) for d in ([0], [-1, 0], [1, -2], [0, 1])])
def passthrough_untouched(lens, flavor, d=(0,)):
    tags = ['zzaa', 'abcd', 'Qx  '][:len(lens)]
    tables = {t: (V.bytes('t_' + t.strip(), n) if n else b'') for t, n in zip(tags, lens)}
    src = _build_sfnt(tables)
    z = _Zlib(d)
    saved = (SF.compress, _sys.modules['zlib'])
    SF.compress = z.compress
    _sys.modules['zlib'] = z
    if symbolic():
        from sx import shims as _sh
        TF.BytesIO = _sh.BytesIO_shim
    try:
        font = TTFont(new_file(src), lazy=True)
        font.flavor = flavor
        f1 = new_file()
        font.save(f1, reorderTables=None)
        g1 = f1.getvalue()
        observe('gen1', tobytes(g1))
        r = SF.SFNTReader(new_file(g1))
        ob('tags', sorted(r.keys()) == sorted(tags))
        for t in tags:
            ob('table-bytes:' + t.strip(), eq(tobytes(r[t]), tobytes(tables[t])) if len(tobytes(r[t])) == len(tobytes(tables[t])) else False)
        # second generation
        font2 = TTFont(new_file(g1), lazy=True)
        f2 = new_file()
        font2.save(f2, reorderTables=None)
        g2 = f2.getvalue()
        ob('second-generation-identical', eq(tobytes(g1), tobytes(g2)) if len(tobytes(g1)) == len(tobytes(g2)) else False)
    finally:
        SF.compress, _sys.modules['zlib'] = saved


# ------------------------------------------------------------------------------------------------ kernels shared with C04 (same code, C01's reading of it)
from harness import C04_container as _c04


@kernel('C01', funcs=['ttLib/ttFont.py:TTFont._writeTable', 'ttLib/tables/_h_m_t_x.py:table__h_m_t_x.compile', 'ttLib/tables/_v_h_e_a.py:table__v_h_e_a.compile'],
        bounds='saving a font whose hmtx / vmtx trims trailing equal advances: the header count written to hhea / vhea describes the metrics bytes written, so the saved '
               'file decodes to the same metrics (symbolic metrics, 2-3 glyphs; see C04.metrics_headers_match_saved_tables)',
        shims=['SFile', 'struct', 'sstruct', 'array'], quick=[dict(n=2), dict(n=3)])
def saved_metrics_decode_again(n):
    _c04.metrics_headers_match_saved_tables(n)


@kernel('C01', funcs=['ttLib/woff2.py:WOFF2GlyfTable._encodeTriplets', 'ttLib/woff2.py:WOFF2GlyfTable._decodeTriplets'],
        bounds='WOFF2 flavour: the transformed glyf point stream written for any point delta over int16 x int16 decodes to the same point '
               '(see C04.woff2_triplets_roundtrip)', shims=['array', 'bytes'], quick=[dict(n=1)], max_paths=100000)
def woff2_points_decode_again(n):
    _c04.woff2_triplets_roundtrip(n)
