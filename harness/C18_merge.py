"""C18 kernels: merging fonts preserves each input's characters, glyph names stay unique, layout features of all inputs survive."""
from sx.api import instrument, kernel, shim_all, V, ob, observe, eq, conj, disj, neg, assume, symbolic, le, lt, ite, collide, tobytes
import fontTools.merge.cmap as MC
import fontTools.merge.layout as ML
import fontTools.merge.tables as MT
import fontTools.merge.util as MU
import fontTools.merge.base as MB
import fontTools.merge.unicode as MUN
import fontTools.ttLib.tables._g_l_y_f as GL
import fontTools.ttLib.tables.otTables as ot
import fontTools.misc.sstruct as SS
from harness.common import Rec

shim_all(MC, ML, MT, MU, MB, MUN, GL, SS)
instrument(MC, 'computeMegaGlyphOrder', strings=True, membership=True)


# ------------------------------------------------------------------------------------------------ character map
class _Sub:
    def __init__(self, fmt, cmap):
        self.format = fmt
        self.platformID, self.platEncID = (3, 10) if fmt == 12 else (3, 1)
        self.cmap = cmap


@kernel('C18', funcs=['merge/cmap.py:computeMegaCmap', 'merge/cmap.py:computeMegaUvs', 'merge/unicode.py:is_Default_Ignorable'],
        bounds='2-3 fonts, each with a Unicode cmap subtable (format 4 or 12, per parameter; a font may carry both, then 12 wins) of 1-2 entries whose CODE '
               'POINTS are symbolic in [0x20, 0x3000] (so equal / different / default-ignorable / U+25CC are solver forks) and whose glyph names are '
               'concrete: every character maps to the glyph of the FIRST font that has it; a later font\'s different glyph for the same character is '
               'recorded as a duplicate of the first (except default-ignorables and U+25CC, the documented policy)',
        shims=['dict keyed by symbolic code points: collide mode (all code-point keys symbolic)'],
        quick=[dict(shape='1+1'), dict(shape='2+1'), dict(shape='1+1+1'), dict(shape='both')], thorough=[dict(shape=s) for s in ('1+1', '2+1', '1+2', '2+2', '1+1+1', 'both')],
        collide=True, max_paths=200000)
def cmap_first_font_wins(shape):
    if shape == 'both':
        counts = [1, 1]
    else:
        counts = [int(x) for x in shape.split('+')]
    tables = []
    entries = []          # (fontIdx, cp, glyph)
    for fi, n in enumerate(counts):
        cps = [V.int('f%d_cp%d' % (fi, i), 0x20, 0x3000) for i in range(n)]
        for a in range(n):
            for b in range(a + 1, n):
                assume(neg(eq(cps[a], cps[b])))
        cm = {}
        for i, cp in enumerate(cps):
            g = 'f%dg%d' % (fi, i)
            cm[cp] = g
            entries.append((fi, cp, g))
        subs = [_Sub(12 if (shape == 'both' and fi == 0) else 4, cm)]
        if shape == 'both' and fi == 0:
            # the same font also has a format 4 subtable mapping the character to ANOTHER glyph: format 12 must win
            subs.insert(0, _Sub(4, {cps[0]: 'f0other'}))
        tables.append(Rec(tables=subs))
    merger = Rec(duplicateGlyphsPerFont=[{} for _ in counts])
    MC.computeMegaCmap(merger, tables)
    observe('n_mapped', len(merger.cmap))

    def lookup(d, key):
        """value for a symbolic key in a dict with symbolic keys, decided by the solver"""
        for k, v in d.items():
            if bool(eq(k, key)):
                return v
        return None
    conds = []
    dup_conds = []
    for fi, cp, g in entries:
        # the first font (in order) that maps cp
        first = None
        for fj, cq, h in entries:
            if bool(eq(cq, cp)):
                first = (fj, h)
                break
        got = lookup(merger.cmap, cp)
        conds.append(got == first[1])
        if first[0] != fi:
            ign = bool(MUN.is_Default_Ignorable(cp)) or bool(eq(cp, 0x25CC))
            rec = merger.duplicateGlyphsPerFont[fi].get(first[1])
            if not ign and rec is None:
                dup_conds.append(False)
            elif not ign:
                # recorded: either this glyph, or another glyph of this font that claimed the same original first (documented drop)
                dup_conds.append(rec == g or any(bool(eq(cq, cq2)) is not None and h2 == rec for (f2, cq2, h2) in entries if f2 == fi for cq in [cp]))
    ob('first-font-wins', all(conds))
    ob('later-duplicates-recorded', all(dup_conds))
    ob('nothing-invented', len(merger.cmap) <= len(entries))


# ------------------------------------------------------------------------------------------------ glyph names
@kernel('C18', funcs=['merge/cmap.py:computeMegaGlyphOrder'],
        bounds='2-3 fonts of 2 glyphs each; glyph names are the concrete "A" plus names of 1-3 SYMBOLIC characters over the alphabet {A, ., 1, 2} (so '
               'clashes between fonts and names that already look like a generated "A.1" are solver forks): all names of the merged glyph order are '
               'pairwise different, every font keeps as many glyphs as it had, and names within a font stay different',
        shims=['symbolic strings (sx.strings); dict keyed by strings: collide mode, all keys symbolic-string objects', '`in` / "".join instrumented'],
        quick=[dict(lens=[[1, 3], [1, 3]]), dict(lens=[[1, 3], [1, 1], [1, 3]])],
        thorough=[dict(lens=l) for l in ([[1, 3], [1, 3]], [[1, 3], [1, 1], [1, 3]], [[1, 3], [3, 1]], [[1, 1], [1, 3], [1, 3]], [[1, 3, 3], [1, 3]])],
        collide=True, max_paths=300000, conc_cap=8)
def mega_glyph_order_unique(lens):
    from sx.api import MODE
    orders = []
    for fi, ls in enumerate(lens):
        names = []
        for gi, n in enumerate(ls):
            if gi == 0:
                nm = _name('A')
            else:
                nm = V.str('f%dn%d' % (fi, gi), n)
                for c in _cps(nm):
                    assume(disj([eq(c, ord(x)) for x in 'A.12']))
            names.append(nm)
        for a in range(len(names)):
            for b in range(a + 1, len(names)):
                assume(neg(_seq(names[a], names[b])))          # a font's own glyph names are unique
        orders.append(names)
    merger = Rec()
    MC.computeMegaGlyphOrder(merger, orders)
    allnames = list(merger.glyphOrder)
    observe('n_glyphs', len(allnames))
    ob('glyph-count', len(allnames) == sum(len(l) for l in lens))
    ob('merged-names-unique', conj([neg(_seq(allnames[a], allnames[b])) for a in range(len(allnames)) for b in range(a + 1, len(allnames))]))
    ob('each-font-keeps-its-glyphs', all(len(o) == len(l) for o, l in zip(orders, lens)))
    ob('every-font-name-is-in-the-merged-order', conj([disj([_seq(n, m) for m in allnames]) for o in orders for n in o]))


def _name(s):
    if symbolic():
        from sx.strings import SStr
        return SStr(s)
    return s


def _cps(s):
    if isinstance(s, str):
        return [ord(c) for c in s]
    return s.codepoints()


def _seq(a, b):
    ca, cb = _cps(a), _cps(b)
    if len(ca) != len(cb):
        return False
    return conj([eq(x, y) for x, y in zip(ca, cb)])


# ------------------------------------------------------------------------------------------------ layout features
@kernel('C18', funcs=['merge/layout.py:mergeFeatureLists', 'merge/layout.py:mergeFeatures', 'merge/layout.py:mergeLookupLists', 'merge/util.py:sumLists'],
        bounds='feature lists of 2-3 fonts with feature tags from the pattern (shared and distinct tags) and SYMBOLIC lookup indices: for every tag the merged '
               'feature refers to every lookup any input feature with that tag referred to (no input\'s feature is dropped), tags are sorted and unique',
        quick=[dict(tags=[['liga'], ['liga']]), dict(tags=[['kern', 'liga'], ['liga']]), dict(tags=[['liga'], ['kern'], ['liga']])],
        thorough=[dict(tags=t) for t in ([['liga'], ['liga']], [['kern', 'liga'], ['liga']], [['liga'], ['kern'], ['liga']], [['liga', 'liga'], ['liga']], [['a'], ['b']])])
def feature_lists_keep_every_input(tags):
    lst = []
    want = {}
    for fi, ts in enumerate(tags):
        recs = []
        for ti, t in enumerate(ts):
            r = ot.FeatureRecord()
            r.FeatureTag = t
            r.Feature = ot.Feature()
            r.Feature.FeatureParams = None
            r.Feature.LookupListIndex = [V.int('f%d_%d_lk%d' % (fi, ti, k), 0, 50) for k in range(2)]
            r.Feature.LookupCount = 2
            want.setdefault(t, []).extend(r.Feature.LookupListIndex)
            recs.append(r)
        lst.append(recs)
    out = ML.mergeFeatureLists(lst)
    got_tags = [r.FeatureTag for r in out]
    ob('tags-sorted-unique', got_tags == sorted(set(want)))
    conds = []
    for r in out:
        for w in want.get(r.FeatureTag, []):
            conds.append(disj([eq(w, x) for x in r.Feature.LookupListIndex]))
        conds.append(r.Feature.LookupCount == len(r.Feature.LookupListIndex))
    ob('every-input-lookup-kept', conj(conds))


# ------------------------------------------------------------------------------------------------ glyf composites
def _glyph_bytes(kind, comp_gid=None):
    if kind == 'empty':
        return b''
    if kind == 'simple':
        # one contour, one point at (0, 0)
        return bytes([0, 1, 0, 0, 0, 0, 0, 0, 0, 0, 0, 0, 0, 0, 1])
    # composite: numberOfContours -1, bbox 0, one component: flags ARGS_ARE_XY_VALUES (0x0002), glyph index, dx, dy bytes
    hdr = [0xFF, 0xFF, 0, 0, 0, 0, 0, 0, 0, 0]
    return tobytes(hdr + [0, 2, 0, comp_gid, 5, 7]) if symbolic() else bytes(hdr + [0, 2, 0, comp_gid, 5, 7])


@kernel('C18', funcs=['merge/tables.py:merge', 'ttLib/tables/_g_l_y_f.py:Glyph.expand', 'ttLib/tables/_g_l_y_f.py:Glyph.isComposite', 'ttLib/tables/_g_l_y_f.py:Glyph.decompileComponents',
                      'ttLib/tables/_g_l_y_f.py:GlyphComponent.decompile'],
        bounds='2-3 glyf tables still in their packed (lazily decoded) form, each with 3 glyphs; the composite glyph of font k (every k) refers to a component '
               'by a SYMBOLIC glyph index 0..2: after the glyf merge step every composite has been resolved against ITS OWN font\'s glyph order (its '
               'component is named after the glyph it pointed to in its own font), so nothing is left to be decoded against the merged order',
        shims=['struct', 'sstruct'], quick=[dict(nfonts=2, k=1), dict(nfonts=2, k=0)], thorough=[dict(nfonts=n, k=k) for n in (2, 3) for k in range(n)])
def glyf_merge_resolves_composites(nfonts, k):
    tables = []
    gids = {}
    for fi in range(nfonts):
        t = GL.table__g_l_y_f()
        names = ['f%d.%s' % (fi, n) for n in ('base', 'mark', 'comp')]
        t.glyphOrder = names
        t._reverseGlyphOrder = {n: i for i, n in enumerate(names)}
        t.glyphs = {}
        for i, n in enumerate(names):
            if i == 2:
                gid = V.int('f%d_comp_gid' % fi, 0, 1)
                gids[fi] = gid
                data = _glyph_bytes('comp', gid)
            else:
                data = _glyph_bytes('simple')
            t.glyphs[n] = GL.Glyph(data)
        tables.append(t)
    new = GL.table__g_l_y_f()
    from fontTools.merge import Merger
    m = Merger()
    merged = MT.ttLib.getTableClass('glyf').merge(new, m, tables)
    ob('merged-table-has-all-glyphs', merged is not NotImplemented and len(new.glyphs) == 3 * nfonts)
    conds = []
    for fi, t in enumerate(tables):
        g = t.glyphs['f%d.comp' % fi]
        resolved = hasattr(g, 'components') and not hasattr(g, 'data')
        conds.append(resolved)
        if resolved:
            want0, want1 = 'f%d.base' % fi, 'f%d.mark' % fi
            nm = g.components[0].glyphName
            conds.append(conj([disj([neg(eq(gids[fi], 0)), nm == want0]), disj([neg(eq(gids[fi], 1)), nm == want1])]))
    ob('every-composite-resolved-in-its-own-font', conj(conds))


@kernel('C18', funcs=['merge/layout.py:mergeScripts', 'merge/layout.py:mergeLangSyses', 'merge/layout.py:mergeScriptRecords'],
        bounds='the same script in 2-3 input fonts, each with language systems from the pattern (shared and distinct tags, listed in non-alphabetical order) and '
               'SYMBOLIC feature indices: the merged Script lists each language-system tag once, in tag order (consumers binary-search it), and each merged '
               'language system refers to every feature any input referred to under that tag; default language systems are merged likewise',
        quick=[dict(tags=[['TRK '], ['AZE ']]), dict(tags=[['TRK ', 'AZE '], ['AZE ']]), dict(tags=[['ZZZ '], ['MMM '], ['AAA ']])],
        thorough=[dict(tags=t) for t in ([['TRK '], ['AZE ']], [['TRK ', 'AZE '], ['AZE ']], [['ZZZ '], ['MMM '], ['AAA ']], [['B   ', 'A   '], ['C   ', 'A   ']], [[], ['X   ']])])
def scripts_merge_sorted_and_complete(tags):
    # at this stage of the merge a LangSys.FeatureIndex holds FeatureRecord objects (indices are re-assigned afterwards)
    def feat(name, tag):
        r = ot.FeatureRecord()
        r.FeatureTag = tag
        r.Feature = ot.Feature()
        r.Feature.FeatureParams = None
        r.Feature.LookupListIndex = [V.int(name, 0, 40)]
        r.Feature.LookupCount = 1
        return r
    scripts, want = [], {}
    dflt_want = []
    for fi, ts in enumerate(tags):
        s = ot.Script()
        s.DefaultLangSys = ot.LangSys()
        s.DefaultLangSys.LookupOrder, s.DefaultLangSys.ReqFeatureIndex = None, 0xFFFF
        s.DefaultLangSys.FeatureIndex = [feat('f%d_dflt' % fi, 'liga')]
        s.DefaultLangSys.FeatureCount = 1
        dflt_want += s.DefaultLangSys.FeatureIndex[0].Feature.LookupListIndex
        s.LangSysRecord = []
        for ti, t in enumerate(ts):
            r = ot.LangSysRecord()
            r.LangSysTag = t
            r.LangSys = ot.LangSys()
            r.LangSys.LookupOrder, r.LangSys.ReqFeatureIndex = None, 0xFFFF
            r.LangSys.FeatureIndex = [feat('f%d_%d_feat' % (fi, ti), 'locl')]
            r.LangSys.FeatureCount = 1
            want.setdefault(t, []).extend(r.LangSys.FeatureIndex[0].Feature.LookupListIndex)
            s.LangSysRecord.append(r)
        s.LangSysCount = len(ts)
        scripts.append(s)
    out = ML.mergeScripts(scripts)
    got = [r.LangSysTag for r in out.LangSysRecord]
    ob('langsys-tags-sorted-unique', got == sorted(set(want)))
    ob('langsys-count', out.LangSysCount == len(got))

    def lookups(ls):
        return [x for fr in ls.FeatureIndex for x in fr.Feature.LookupListIndex]
    conds = []
    for r in out.LangSysRecord:
        for w in want[r.LangSysTag]:
            conds.append(disj([eq(w, x) for x in lookups(r.LangSys)]))
    for w in dflt_want:
        conds.append(disj([eq(w, x) for x in lookups(out.DefaultLangSys)]))
    ob('every-input-feature-kept', conj(conds))


# ------------------------------------------------------------------------------------------------ CFF advance widths
import fontTools.cffLib as CFFL
import fontTools.misc.psCharStrings as PS
shim_all(PS)


class _CFFSet(list):
    GlobalSubrs = []

    def desubroutinize(self):
        pass


def _cff_font(fi, default, nominal, glyphs):
    """a CFF table stand-in around REAL TopDict / PrivateDict / CharStrings / T2CharString objects; glyphs: name -> program"""
    priv = CFFL.PrivateDict()
    priv.defaultWidthX, priv.nominalWidthX = default, nominal
    top = CFFL.TopDict()
    top.Private = priv
    top.charset = list(glyphs)
    top.strings = CFFL.IndexedStrings()
    top.strings.strings = list(glyphs)
    cs = CFFL.CharStrings(None, top.charset, [], priv, None, None)
    for n, prog in glyphs.items():
        c = PS.T2CharString(program=list(prog), private=priv, globalSubrs=[])
        cs[n] = c
    top.CharStrings = cs
    t = Rec(cff=_CFFSet([top]))
    return t


def _spec_width(program, default, nominal):
    """Type 2 spec (TN5177 section 3.1 / 4.1): the first stack-clearing operator is hmoveto here and takes ONE argument; one extra
    argument before it is the width as a difference from nominalWidthX; no extra argument means defaultWidthX.  Anything else is malformed."""
    i = program.index('hmoveto')
    if i == 1:
        return default, program[0]
    if i == 2:
        return nominal + program[0], program[1]
    return None, None


@kernel('C18', funcs=['merge/tables.py:merge', 'misc/psCharStrings.py:T2WidthExtractor.popallWidth', 'misc/psCharStrings.py:SimpleT2Decompiler.execute'],
        bounds='two CFF tables (real TopDict / PrivateDict / CharStrings / T2CharString objects; charstrings without subroutines, CID-keyed fonts refused by the code), '
               'defaultWidthX and nominalWidthX of BOTH fonts symbolic in [0, 1200], the second font has two glyphs "hmoveto endchar", one with an explicit width '
               'operand w in [-1200, 1200] and one without (per parameter also both with / both without): after the CFF merge step every glyph of the second font, '
               'read by the Type 2 width rule under the FIRST font\'s Private dict (which the merged font uses), has the advance width it had in its own font, is '
               'still well-formed (no operand left over) and keeps its drawing operand; the first font\'s glyphs are untouched',
        shims=[], quick=[dict(kinds='wn')], thorough=[dict(kinds=k) for k in ('wn', 'ww', 'nn', 'nw')], max_paths=20000)
def cff_merge_keeps_advance_widths(kinds):
    d0, n0 = V.int('default0', 0, 1200), V.int('nominal0', 0, 1200)
    d1, n1 = V.int('default1', 0, 1200), V.int('nominal1', 0, 1200)
    progs0 = {'.notdef': [50, 'hmoveto', 'endchar'], 'A': [V.int('wA', -1200, 1200), 60, 'hmoveto', 'endchar']}
    progs1 = {}
    for i, kd in enumerate(kinds):
        if kd == 'w':
            progs1['g%d' % i] = [V.int('w%d' % i, -1200, 1200), 70 + i, 'hmoveto', 'endchar']
        else:
            progs1['g%d' % i] = [70 + i, 'hmoveto', 'endchar']
    want = {n: _spec_width(p, d1, n1) for n, p in progs1.items()}
    want0 = {n: _spec_width(p, d0, n0) for n, p in progs0.items()}
    t0, t1 = _cff_font(0, d0, n0, progs0), _cff_font(1, d1, n1, progs1)
    from fontTools.merge import Merger
    merged = MT.ttLib.getTableClass('CFF ').merge(t0, Merger(), [t0, t1])
    top = merged.cff[0]
    ob('merged-charset', list(top.charset) == ['.notdef', 'A', 'g0', 'g1'] and top.numGlyphs == 4)
    conds, keep = [], []
    for n, (w, arg) in want.items():
        prog = list(top.CharStrings[n].program)
        gotw, gotarg = _spec_width(prog, d0, n0)
        if gotw is None:
            conds.append(False)
            continue
        conds.append(eq(gotw, w))
        keep.append(eq(gotarg, arg))
    ob('second-font-widths-kept', conj(conds))
    ob('second-font-drawing-operands-kept', conj(keep))
    conds = []
    for n, (w, arg) in want0.items():
        gotw, gotarg = _spec_width(list(top.CharStrings[n].program), d0, n0)
        conds.append(gotw is not None and conj([eq(gotw, w), eq(gotarg, arg)]))
    ob('first-font-untouched', conj(conds))


# ------------------------------------------------------------------------------------------------ feature index <-> reference mapping
@kernel('C18', funcs=['merge/layout.py:mapFeatures'],
        bounds='a Script with a default language system and one more language system, each with a feature index and a required-feature index, all SYMBOLIC in '
               '[0, 3] (the required index may also be 0xFFFF = none): after the index -> reference mapping that layoutPreMerge applies before fonts are merged, every '
               'feature index - the required one included, index 0 included - has been replaced by the feature object it pointed to, and "no required feature" stays '
               '0xFFFF; the index map is given as a list (the real one is a dict with the same integer keys)',
        shims=['list indexed by a symbolic int forks over the index values'], quick=[dict(req='index'), dict(req='none')], thorough=[dict(req='index'), dict(req='none'), dict(req='any')])
def langsys_indices_become_references(req):
    feats = [Rec(tag='f%d' % i) for i in range(4)]

    def mk(tag):
        ls = ot.LangSys() if tag != 'dflt' else ot.DefaultLangSys()
        idx = [V.int('%s_i%d' % (tag, i), 0, 3) for i in range(1)]
        r = V.int('%s_req' % tag, 0, 0xFFFF)
        if req == 'index':
            assume(le(r, 3))
        elif req == 'none':
            assume(eq(r, 0xFFFF))
        else:
            assume(disj([le(r, 3), eq(r, 0xFFFF)]))
        ls.FeatureIndex = list(idx)
        ls.FeatureCount = 1
        ls.ReqFeatureIndex = r
        return ls, idx, r
    d, di, dr = mk('dflt')
    l, li, lr = mk('ls')
    sc = ot.Script()
    sc.DefaultLangSys = d
    rec = ot.LangSysRecord()
    rec.LangSysTag = 'TRK '
    rec.LangSys = l
    sc.LangSysRecord = [rec]
    sc.LangSysCount = 1
    sc.mapFeatures(list(feats))
    conds = []
    for ls, idx, r in ((d, di, dr), (l, li, lr)):
        for got, i in zip(ls.FeatureIndex, idx):
            conds.append(any(got is f and bool(eq(i, k)) for k, f in enumerate(feats)))
        if bool(eq(r, 0xFFFF)):
            conds.append(not isinstance(ls.ReqFeatureIndex, Rec) and bool(eq(ls.ReqFeatureIndex, 0xFFFF)))
        else:
            conds.append(any(ls.ReqFeatureIndex is f and bool(eq(r, k)) for k, f in enumerate(feats)))
    ob('every-index-replaced-by-its-feature', all(conds))
