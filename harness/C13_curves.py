"""C13 kernels: curve conversion stays within tolerance and keeps masters compatible.

Two kinds of kernels:
 * exact algebra on fully SYMBOLIC control points (subdivision, elevation, parameter conversion): polynomial identities, LRA;
 * the tolerance contract on CONCRETE curve families x SYMBOLIC tolerance(s): every branch of the conversion is a threshold
   comparison |concrete error| <= tolerance, so the solver partitions the whole tolerance range into the cases the code
   distinguishes, and on each the returned curve's measured distance from the input must be <= tolerance.  (With fully symbolic
   curves the same obligation is degree-8 non-linear real arithmetic: measured `unknown` at 120 s per query, DESIGN 1.3.)
"""
import math
from sx.api import kernel, shim_all, V, ob, observe, eq, conj, disj, neg, assume, symbolic, le, lt, ite
import fontTools.cu2qu.cu2qu as CQ
import fontTools.qu2cu.qu2cu as QC
import fontTools.cu2qu.ufo as CU
import fontTools.misc.bezierTools as BT
from fontTools.cu2qu.errors import ApproxNotFoundError

import fontTools.pens.qu2cuPen as QP
import fontTools.pens.filterPen as FP
shim_all(CQ, QC, CU, BT, QP, FP)

DEPTH_CAP = 10


def _cap_recursion(mod):
    """symbolic mode: cubic_farthest_fit_inside subdivides until the tolerance separates from the control polygon; for tolerance
    values ever closer to the curve's exact maximum deviation the depth is unbounded.  Paths deeper than DEPTH_CAP are cut
    (counted, reported as outside the bound): they cover tolerance values within ~2^-DEPTH_CAP of a decision threshold."""
    if not symbolic():
        return
    real = mod.cubic_farthest_fit_inside
    if getattr(real, '_sx_capped', False):
        return
    depth = [0]

    def capped(p0, p1, p2, p3, tolerance):
        if depth[0] >= DEPTH_CAP:
            from sx.api import cut
            depth[0] = 0
            cut('subdivision depth cap')
        depth[0] += 1
        try:
            return real(p0, p1, p2, p3, tolerance)
        finally:
            depth[0] = max(0, depth[0] - 1)
    capped._sx_capped = True
    mod.cubic_farthest_fit_inside = capped


_cap_recursion(CQ)
_cap_recursion(QC)


# ------------------------------------------------------------------------------------------------ concrete geometry (harness side)
def cubic_at(c, t):
    mt = 1 - t
    return tuple(mt * mt * mt * c[0][k] + 3 * mt * mt * t * c[1][k] + 3 * mt * t * t * c[2][k] + t * t * t * c[3][k] for k in (0, 1))


def quad_at(q, t):
    mt = 1 - t
    return tuple(mt * mt * q[0][k] + 2 * mt * t * q[1][k] + t * t * q[2][k] for k in (0, 1))


def spline_quads(spline):
    """TrueType-style quadratic spline (on, off..., on) -> atomic quadratics with implied on-curve midpoints"""
    spline = [tuple(map(float, p)) for p in spline]
    if len(spline) == 3:
        return [spline]
    out = []
    start = spline[0]
    offs = spline[1:-1]
    for i, o in enumerate(offs):
        end = spline[-1] if i == len(offs) - 1 else ((o[0] + offs[i + 1][0]) / 2, (o[1] + offs[i + 1][1]) / 2)
        out.append([start, o, end])
        start = end
    return out


def sample_curve(curve, n=96):
    curve = [tuple(map(float, p)) for p in curve]
    f = cubic_at if len(curve) == 4 else quad_at
    return [f(curve, i / n) for i in range(n + 1)]


def dist_point_polyline(p, poly):
    best = float('inf')
    for a, b in zip(poly, poly[1:]):
        dx, dy = b[0] - a[0], b[1] - a[1]
        L = dx * dx + dy * dy
        t = 0.0 if L == 0 else max(0.0, min(1.0, ((p[0] - a[0]) * dx + (p[1] - a[1]) * dy) / L))
        q = (a[0] + t * dx, a[1] + t * dy)
        best = min(best, math.hypot(p[0] - q[0], p[1] - q[1]))
    return best


def deviation(curves_a, curves_b):
    """max over sample points of A of the distance to the (densely sampled) curve B: a lower bound of the one-sided Hausdorff distance"""
    poly = []
    for c in curves_b:
        poly += sample_curve(c, 192)
    worst = 0.0
    for c in curves_a:
        for p in sample_curve(c, 64):
            worst = max(worst, dist_point_polyline(p, poly))
    return worst


def within(dev, tol):
    """dev (concrete float) <= tol (symbolic), with the sampling slack: 0.5% + 0.01 unit"""
    return le(dev, tol * 1.005 + 0.01)


CUBICS = {
    'arch': [(0, 0), (30, 120), (170, 120), (200, 0)],
    's': [(0, 0), (100, 200), (100, -200), (200, 0)],
    'loop': [(0, 0), (300, 200), (-100, 200), (200, 0)],
    'cusp': [(0, 0), (200, 200), (0, 200), (200, 0)],
    'line': [(0, 0), (50, 25), (150, 75), (200, 100)],
    'degen-start': [(0, 0), (0, 0), (100, 150), (200, 0)],
    'degen-all': [(10, 10), (10, 10), (10, 10), (10, 10)],
    'quadlike': [(0, 0), (80, 120), (160, 120), (240, 0)],
    'hook': [(0, 0), (10, 300), (20, -300), (400, 10)],
    'wide': [(0, 0), (500, 40), (-300, 40), (200, 0)],
    'doc1': [(50, 50), (100, 100), (150, 100), (200, 50)],
    'doc2': [(75, 50), (120, 100), (150, 75), (200, 60)],
    'flatS': [(0, 0), (400, 30), (-200, -30), (200, 0)],
}

F_CQ = ['cu2qu/cu2qu.py:curve_to_quadratic', 'cu2qu/cu2qu.py:curves_to_quadratic', 'cu2qu/cu2qu.py:cubic_approx_spline', 'cu2qu/cu2qu.py:cubic_approx_quadratic',
        'cu2qu/cu2qu.py:cubic_farthest_fit_inside', 'cu2qu/cu2qu.py:split_cubic_into_n_iter', 'cu2qu/cu2qu.py:cubic_approx_control', 'cu2qu/cu2qu.py:calc_intersect']


def _check_spline(cubic, spline, tol, label, all_quadratic=True):
    ob(label + 'starts-on-p0', tuple(spline[0]) == tuple(map(float, cubic[0])))
    ob(label + 'ends-on-p3', tuple(spline[-1]) == tuple(map(float, cubic[3])))
    if not all_quadratic and len(spline) == 4:
        ob(label + 'cubic-kept-verbatim', [tuple(p) for p in spline] == [tuple(map(float, p)) for p in cubic])
        return
    quads = spline_quads(spline)
    ob(label + 'spline-within-tolerance-of-cubic', within(deviation(quads, [cubic]), tol))
    ob(label + 'cubic-within-tolerance-of-spline', within(deviation([cubic], quads), tol))


@kernel('C13', funcs=F_CQ,
        bounds='13 concrete cubics (arch, S, loop, cusp, straight, degenerate control points, all points equal, hook, ...) x ALL tolerances in '
               '[tol_lo, 60] (tol_lo = 0.2 quick / 0.05 thorough; symbolic real) x all_quadratic in {True, False}: on every case the code '
               'distinguishes, the spline starts/ends on the end points and both one-sided sampled deviations are <= tolerance',
        assumptions=['distance measured by sampling (96/192 points per segment) with slack 0.5% + 0.01 unit: a violation needs an excess above that slack'],
        outside=['fully symbolic control points for the tolerance bound (degree-8 NRA, measured out of reach)'],
        quick=[dict(name=n, aq=True, lo=0.2) for n in CUBICS] + [dict(name=n, aq=False, lo=0.2) for n in ('arch', 's', 'quadlike')],
        thorough=[dict(name=n, aq=a, lo=0.05) for n in CUBICS for a in (True, False)], max_paths=20000)
def cubic_to_quadratic_tolerance(name, aq, lo):
    cubic = CUBICS[name]
    tol = V.real('tol', lo, 60)
    try:
        spline = CQ.curve_to_quadratic(cubic, tol, aq)
    except ApproxNotFoundError:
        ob('error-instead-of-worse-curve', True)
        return
    observe('n_points', len(spline))
    _check_spline(cubic, spline, tol, '', aq)


@kernel('C13', funcs=F_CQ,
        bounds='groups of 2-3 concrete cubics converted together with one SYMBOLIC tolerance PER CURVE in [lo, 40] (lo per parameter: 0.3 .. 2): all results have the same number '
               'of points, and each curve is within ITS OWN tolerance',
        quick=[dict(names=['arch', 's'], lo=2), dict(names=['s', 'arch'], lo=2), dict(names=['doc1', 'doc2'], lo=0.5)],
        thorough=[dict(names=list(n), lo=l) for n, l in ((('arch', 's'), 1), (('s', 'arch'), 1), (('doc1', 'doc2'), 0.3), (('quadlike', 'hook'), 2), (('hook', 'quadlike'), 2), (('line', 's'), 1))],
        max_paths=60000)
def group_conversion_compatible(names, lo):
    cubics = [CUBICS[n] for n in names]
    tols = [V.real('tol%d' % i, lo, 40) for i in range(len(names))]
    try:
        splines = CQ.curves_to_quadratic(cubics, tols)
    except ApproxNotFoundError:
        ob('error-instead-of-worse-curve', True)
        return
    observe('n_points', len(splines[0]))
    ob('same-number-of-segments', len({len(s) for s in splines}) == 1 and len(splines) == len(cubics))
    for i, (c, s, t) in enumerate(zip(cubics, splines, tols)):
        _check_spline(c, s, t, 'curve%d:' % i)


QUADS = {
    'smooth2': [[(0, 0), (50, 100), (100, 100)], [(100, 100), (150, 100), (200, 0)]],
    'hook-long': [[(0, 0), (2, 1), (4, 1)], [(4, 1), (124, 1), (140, 5)]],
    'tt-arch': [[(0, 0), (30, 90), (100, 120), (170, 90), (200, 0)]],
    'corner': [[(0, 0), (50, 100), (100, 0)], [(100, 0), (150, 100), (200, 0)]],
    's3': [[(0, 0), (40, 80), (80, 80)], [(80, 80), (120, 80), (160, 0)], [(160, 0), (200, -80), (240, -80)]],
    'fromcubic': [[(0, 0), (22.5, 90), (100, 120), (177.5, 90), (200, 0)]],
    'short-long-short': [[(0, 0), (1, 2), (3, 3)], [(3, 3), (100, 50), (200, 3)], [(200, 3), (202, 2), (203, 0)]],
}


@kernel('C13', funcs=['qu2cu/qu2cu.py:quadratic_to_curves', 'qu2cu/qu2cu.py:spline_to_curves', 'qu2cu/qu2cu.py:merge_curves', 'qu2cu/qu2cu.py:cubic_farthest_fit_inside',
                      'qu2cu/qu2cu.py:elevate_quadratic', 'qu2cu/qu2cu.py:add_implicit_on_curves', 'misc/bezierTools.py:splitCubicAtTC'],
        bounds='7 concrete quadratic splines (smooth joins, a short hook running into a long curve, corners, TrueType splines with implied points) x '
               'ALL tolerances in [0.05, 30] x all_cubic in {False, True}: the returned curves connect end to start, begin/end on the input\'s end '
               'points, and are within tolerance of the input (both one-sided sampled deviations)',
        assumptions=['distance measured by sampling with slack 0.5% + 0.01 unit'],
        quick=[dict(name=n, all_cubic=False) for n in QUADS] + [dict(name='hook-long', all_cubic=True)],
        thorough=[dict(name=n, all_cubic=a) for n in QUADS for a in (False, True)], max_paths=20000)
def quadratic_to_cubic_tolerance(name, all_cubic):
    quads = QUADS[name]
    tol = V.real('tol', 0.05, 30)
    curves = QC.quadratic_to_curves(quads, tol, all_cubic)
    observe('n_curves', len(curves))
    ob('non-empty', len(curves) >= 1)
    ob('starts-on-first-point', tuple(curves[0][0]) == tuple(map(float, quads[0][0])))
    ob('ends-on-last-point', tuple(curves[-1][-1]) == tuple(map(float, quads[-1][-1])))
    ob('connected', all(tuple(a[-1]) == tuple(b[0]) for a, b in zip(curves, curves[1:])))
    ob('curve-orders', all(len(c) in ((4,) if all_cubic else (3, 4)) for c in curves))
    orig = []
    for s in quads:
        orig += spline_quads(s)
    ob('result-within-tolerance-of-input', within(deviation(curves, orig), tol))
    ob('input-within-tolerance-of-result', within(deviation(orig, curves), tol))


# ------------------------------------------------------------------------------------------------ exact algebra on symbolic control points
def C(name):
    return complex(V.real(name + 'x', -1000, 1000), V.real(name + 'y', -1000, 1000)) if not symbolic() else CQ.complex(V.real(name + 'x', -1000, 1000), V.real(name + 'y', -1000, 1000))


def c_eq(a, b):
    return conj([eq(a.real, b.real), eq(a.imag, b.imag)])


def blossom(P, ts):
    """polar form of the cubic with control points P at (t1, t2, t3): de Casteljau with a different parameter per level"""
    pts = list(P)
    for t in ts:
        pts = [pts[i] * (1 - t) + pts[i + 1] * t for i in range(len(pts) - 1)]
    return pts[0]


@kernel('C13', funcs=['cu2qu/cu2qu.py:split_cubic_into_n_iter', 'cu2qu/cu2qu.py:split_cubic_into_two', 'cu2qu/cu2qu.py:split_cubic_into_three', 'cu2qu/cu2qu.py:_split_cubic_into_n_gen',
                      'cu2qu/cu2qu.py:calc_cubic_points', 'cu2qu/cu2qu.py:calc_cubic_parameters'],
        bounds='ALL cubics (8 symbolic real coordinates), n in {2, 3, 4, 6} (thorough also 8; n = 5, 7, 12 are left out: the code derives 1/n^2 and 1/n^3 in double arithmetic, where the R-float rule that a constant denotes the rational it was written as no longer holds exactly): piece k of the subdivision has exactly the control points given by the polar form '
               '(blossom) of the input on [k/n, (k+1)/n]; consecutive pieces share their end points; calc_cubic_points inverts calc_cubic_parameters',
        shims=['complex over reals'], quick=[dict(n=n) for n in (2, 3, 4, 6)], thorough=[dict(n=n) for n in (2, 3, 4, 6, 8)])
def subdivision_exact(n):
    from fractions import Fraction as Fr
    P = [C('p%d' % i) for i in range(4)]
    pieces = list(CQ.split_cubic_into_n_iter(P[0], P[1], P[2], P[3], n))
    ob('piece-count', len(pieces) == n)
    conds = []
    for k, piece in enumerate(pieces):
        u, v = (Fr(k, n), Fr(k + 1, n)) if True else (k / n, (k + 1) / n)
        want = [blossom(P, (u, u, u)), blossom(P, (u, u, v)), blossom(P, (u, v, v)), blossom(P, (v, v, v))]
        conds += [c_eq(a, b) for a, b in zip(piece, want)]
    ob('pieces-are-the-blossom', conj(conds))
    a, b, c, d = CQ.calc_cubic_parameters(*P)
    back = CQ.calc_cubic_points(a, b, c, d)
    ob('parameters-roundtrip', conj([c_eq(x, y) for x, y in zip(back, P)]))


@kernel('C13', funcs=['qu2cu/qu2cu.py:elevate_quadratic', 'qu2cu/qu2cu.py:add_implicit_on_curves'],
        bounds='ALL quadratics (6 symbolic coordinates) and ALL t: the elevated cubic is the same polynomial (equal at a symbolic parameter t and at '
               'the end points); add_implicit_on_curves inserts exactly the midpoints',
        shims=['complex over reals'], quick=[dict()])
def elevation_exact():
    q = [C('q%d' % i) for i in range(3)]
    cub = QC.elevate_quadratic(*q)
    t = V.real('t', 0, 1)
    mt = 1 - t
    qv = q[0] * (mt * mt) + q[1] * (2 * mt * t) + q[2] * (t * t)
    cv = cub[0] * (mt * mt * mt) + cub[1] * (3 * mt * mt * t) + cub[2] * (3 * mt * t * t) + cub[3] * (t * t * t)
    ob('same-polynomial', c_eq(qv, cv))
    ob('end-points', conj([c_eq(cub[0], q[0]), c_eq(cub[3], q[2])]))
    p = [C('s%d' % i) for i in range(4)]
    full = QC.add_implicit_on_curves(p)
    ob('implicit-on-curves', len(full) == 5 and bool(conj([c_eq(full[0], p[0]), c_eq(full[1], p[1]), c_eq(full[2], (p[1] + p[2]) * 0.5), c_eq(full[3], p[2]), c_eq(full[4], p[3])])))


# ------------------------------------------------------------------------------------------------ segment collection for glyph conversion
@kernel('C13', funcs=['cu2qu/ufo.py:GetSegmentsPen._add_segment', 'cu2qu/ufo.py:GetSegmentsPen.curveTo', 'cu2qu/ufo.py:GetSegmentsPen.qCurveTo'],
        bounds='contours mixing lines, cubic and quadratic segments in every adjacent order (symbolic coordinates): every curve / qcurve segment '
               'collected for conversion begins at the end point of the segment before it ("curves always include their initial on-curve point")',
        quick=[dict(seq=s) for s in ('lcq', 'qcl', 'cqc', 'qqc', 'ccq')])
def segments_are_connected(seq):
    pen = CU.GetSegmentsPen()
    n = [0]

    def P():
        n[0] += 1
        return (V.real('x%d' % n[0], -1000, 1000), V.real('y%d' % n[0], -1000, 1000))
    start = P()
    pen.moveTo(start)
    last = start
    ends = []
    for s in seq:
        if s == 'l':
            p = P()
            pen.lineTo(p)
        elif s == 'c':
            a, b, p = P(), P(), P()
            pen.curveTo(a, b, p)
        else:
            a, p = P(), P()
            pen.qCurveTo(a, p)
        ends.append((s, last, p))
        last = p
    pen.closePath()
    segs = [s for s in pen.segments if s[0] in ('line', 'curve', 'qcurve')]
    ob('segment-count', len(segs) == len(seq))
    conds = []
    for (tag, args), (s, begin, end) in zip(segs, ends):
        if tag in ('curve', 'qcurve'):
            conds.append(conj([eq(args[0][0], begin[0]), eq(args[0][1], begin[1])]))
        conds.append(conj([eq(args[-1][0], end[0]), eq(args[-1][1], end[1])]))
    ob('each-curve-starts-where-the-previous-ended', conj(conds))


# ------------------------------------------------------------------------------------------------ font-level conversion with per-font tolerances
class _DuckGlyph:
    """what cu2qu.ufo needs of a glyph: draw(pen), clearContours(), getPen()"""

    def __init__(self, events):
        self.value = list(events)

    def draw(self, pen):
        for op, args in self.value:
            getattr(pen, op)(*args)

    def drawPoints(self, pointPen):
        from fontTools.pens.pointPen import SegmentToPointPen
        self.draw(SegmentToPointPen(pointPen, guessSmooth=False))

    def clearContours(self):
        self.value = []

    def __len__(self):
        return sum(1 for op, _ in self.value if op == 'moveTo')

    def getPen(self):
        from fontTools.pens.recordingPen import RecordingPen
        rec = RecordingPen()
        rec.value = self.value
        return rec


class _DuckFont(dict):
    def __init__(self, glyphs, upem=1000):
        dict.__init__(self, glyphs)
        self.lib = {}
        self.info = type('I', (), {'unitsPerEm': upem})()


def _closed_cubic_contour(c):
    return [('moveTo', (c[0],)), ('curveTo', (c[1], c[2], c[3])), ('lineTo', (c[0],)), ('closePath', ())]


@kernel('C13', funcs=['cu2qu/ufo.py:fonts_to_quadratic', 'cu2qu/ufo.py:_glyphs_to_quadratic', 'cu2qu/ufo.py:_segments_to_quadratic', 'cu2qu/ufo.py:_get_segments', 'cu2qu/ufo.py:_set_segments',
                      'cu2qu/cu2qu.py:curves_to_quadratic'],
        bounds='2-3 masters (duck-typed fonts) with one SYMBOLIC tolerance per master in [2, 40]; glyph "a" (a straight cubic) in every master, glyph "b" missing from the masters '
               'named in the parameter (sparse glyph sets): after fonts_to_quadratic every glyph of every master is within THAT master\'s tolerance of its '
               'original cubic, and same-named glyphs have the same number of points',
        quick=[dict(missing=[0])], thorough=[dict(missing=m) for m in ([0], [], [1])], max_paths=60000)
def fonts_conversion_uses_each_masters_tolerance(missing):
    shapes = [CUBICS['arch'], CUBICS['s'], CUBICS['hook']]
    n = 3 if len(missing) == 2 else 2
    tols = [V.real('tol%d' % i, 2, 40) for i in range(n)]
    fonts, orig = [], []
    for i in range(n):
        gl = {'a': _DuckGlyph(_closed_cubic_contour(CUBICS['line']))}
        if i not in missing:
            gl['b'] = _DuckGlyph(_closed_cubic_contour(shapes[i]))
        orig.append({k: list(v.value) for k, v in gl.items()})
        fonts.append(_DuckFont(gl))
    try:
        CU.fonts_to_quadratic(fonts, max_err=list(tols), remember_curve_type=False)
    except ApproxNotFoundError:
        ob('error-instead-of-worse-curve', True)
        return
    for i, f in enumerate(fonts):
        for name, g in f.items():
            cubic = [orig[i][name][0][1][0]] + list(orig[i][name][1][1])
            q = [e for e in g.value if e[0] == 'qCurveTo']
            ob('font%d.%s:converted' % (i, name), len(q) == 1)
            if len(q) != 1:
                continue
            spline = [cubic[0]] + list(q[0][1])
            _check_spline(cubic, spline, tols[i], 'font%d.%s:' % (i, name))
    for name in ('a', 'b'):
        counts = {len([e for e in f[name].value if e[0] == 'qCurveTo'][0][1]) for f in fonts if name in f and [e for e in f[name].value if e[0] == 'qCurveTo']}
        ob(name + ':compatible-point-counts', len(counts) <= 1)


# ------------------------------------------------------------------------------------------------ quadratic-to-cubic pen
@kernel('C13', funcs=['pens/qu2cuPen.py:Qu2CuPen.filterContour', 'pens/qu2cuPen.py:Qu2CuPen._quadratics_to_curve', 'pens/filterPen.py:ContourFilterPen.closePath'],
        bounds='closed contours of two or three single-off-curve quadratic segments with ALL coordinates symbolic (so "the explicit on-curve point is exactly midway '
               'between its off-curve neighbours", in x and/or y, is a solver fork), passed through Qu2CuPen with all_cubic=False: the emitted outline is the '
               'input outline (segments may be re-grouped with implied on-curve points only where the point really is the midpoint)',
        quick=[dict(n=2), dict(n=3)])
def qu2cu_pen_keeps_outline(n):
    from fontTools.pens.qu2cuPen import Qu2CuPen
    from fontTools.pens.recordingPen import RecordingPen
    from harness.C14_pens import canon, outline_eq, P, replay
    p0 = P('p0')
    ev = [('moveTo', (p0,))]
    for i in range(n):
        ev.append(('qCurveTo', (P('c%d' % i), P('p%d' % (i + 1)))))
    ev.append(('closePath', ()))
    rec = RecordingPen()
    pen = Qu2CuPen(rec, max_err=0.5, all_cubic=False)
    replay(ev, pen)
    observe('n_events', len(rec.value))
    ob('same-outline', outline_eq(canon(rec.value), canon(ev)))


# ------------------------------------------------------------------------------------------------ Cu2QuPen on consecutive curves
import fontTools.pens.cu2quPen as CQP
from fontTools.pens.recordingPen import RecordingPen
shim_all(CQP)


@kernel('C13', funcs=['pens/cu2quPen.py:Cu2QuPen._convert_curve', 'pens/cu2quPen.py:Cu2QuPen.curveTo', 'pens/basePen.py:AbstractPen.curveTo', 'cu2qu/cu2qu.py:curve_to_quadratic'],
        bounds='a closed contour of two consecutive cubics from the concrete family (the second translated to start where the first ends; pairs from the parameter, chosen '
               'so that with all_quadratic=False the first is kept as a cubic for small tolerances and the second is converted; one second curve is built so that it would be an exact quadratic IF it started at the start of the first curve) x ALL tolerances in [0.2, 60] (symbolic '
               'real) x all_quadratic in {True, False}: the pen emits one segment per input curve, every segment starts where the previous one ends, a kept cubic is '
               'passed on verbatim, and every converted segment is within the tolerance of ITS OWN input curve (sampled deviation, both directions)',
        assumptions=['distance measured by sampling (96/192 points per segment) with slack 0.5% + 0.01 unit'],
        quick=[dict(first='s', second='quadlike', aq=False), dict(first='hook', second='arch', aq=True), dict(first='dome', second='quad-from-first-start', aq=False)],
        thorough=[dict(first=a, second=b, aq=q) for a, b in (('s', 'quadlike'), ('hook', 'arch'), ('loop', 'doc1'), ('quadlike', 's'), ('wide', 'quadlike'), ('dome', 'quad-from-first-start'), ('s', 'quad-from-first-start')) for q in (False, True)],
        max_paths=20000)
def cu2qu_pen_consecutive_curves(first, second, aq):
    c1 = [tuple(map(float, p)) for p in (CUBICS[first] if first != 'dome' else [(0, 0), (0, 100), (200, 100), (200, 0)])]
    if second == 'quad-from-first-start':
        # the control points that make (START OF THE FIRST CURVE, p1, p2, p3) an exactly elevated quadratic, drawn from the END of the first curve: a pen
        # that converts from a stale current point sees a quadratic where there is none
        q0, q1, q2 = c1[0], (c1[0][0] + 300.0, c1[0][1] - 300.0), (c1[0][0] + 600.0, c1[0][1])
        c2 = [c1[3], (q0[0] + 2 * (q1[0] - q0[0]) / 3, q0[1] + 2 * (q1[1] - q0[1]) / 3), (q2[0] + 2 * (q1[0] - q2[0]) / 3, q2[1] + 2 * (q1[1] - q2[1]) / 3), q2]
    else:
        c2 = CUBICS[second]
        dx, dy = c1[3][0] - c2[0][0], c1[3][1] - c2[0][1]
        c2 = [(float(x + dx), float(y + dy)) for x, y in c2]
    tol = V.real('tol', 0.2, 60)
    rec = RecordingPen()
    pen = CQP.Cu2QuPen(rec, tol, all_quadratic=aq)
    pen.moveTo(c1[0])
    pen.curveTo(*c1[1:])
    pen.curveTo(*c2[1:])
    pen.closePath()
    ops = rec.value
    observe('ops', [op for op, _ in ops])
    ob('one-segment-per-curve', len(ops) == 4 and ops[0][0] == 'moveTo' and ops[-1][0] == 'closePath' and all(op in ('curveTo', 'qCurveTo') for op, _ in ops[1:3]))
    if len(ops) != 4:
        return
    cur = tuple(ops[0][1][0])
    for i, (cubic, (op, pts)) in enumerate(zip((c1, c2), ops[1:3])):
        label = 'curve%d:' % (i + 1)
        spline = [cur] + [tuple(p) for p in pts]
        if op == 'curveTo':
            ob(label + 'cubic-kept-verbatim', not aq and len(pts) == 3 and [tuple(p) for p in spline] == [tuple(p) for p in cubic])
        else:
            _check_spline(cubic, spline, tol, label, True)
        cur = tuple(pts[-1])
