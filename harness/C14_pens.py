"""C14 kernels: pen adapters preserve geometry.

Call-sequence SHAPES are enumerated; ALL coordinates are symbolic reals, so coincidences (closing line equal to the start point,
duplicate points, on-curve points exactly midway between off-curves) are solver forks.  Geometry is compared on a canonical
outline computed by this harness from the pen protocol's documented semantics: a list of contours, each a list of atomic
segments (start, kind, control points, end); closed contours are compared up to the choice of start point and zero-length
lines are not geometry.
"""
from sx.api import kernel, shim_all, V, ob, observe, eq, conj, disj, neg, assume, symbolic, le, lt, ite, is_int
import fontTools.pens.basePen as BP
import fontTools.pens.pointPen as PP
import fontTools.pens.reverseContourPen as RC
import fontTools.pens.recordingPen as RP
import fontTools.pens.transformPen as TP
import fontTools.pens.roundingPen as RO
import fontTools.pens.areaPen as AP
import fontTools.pens.boundsPen as BO
import fontTools.pens.ttGlyphPen as TG
import fontTools.misc.transform as TR
import fontTools.misc.roundTools as RT
import fontTools.misc.arrayTools as AT
import fontTools.ttLib.tables._g_l_y_f as GL
import fontTools.ttLib.tables.ttProgram as TPR
import fontTools.misc.vector as VEC

shim_all(BP, PP, RC, RP, TP, RO, AP, BO, TG, TR, RT, AT, GL, TPR, VEC)


# ------------------------------------------------------------------------------------------------ canonical outline
def mid(p, q):
    return ((p[0] + q[0]) / 2, (p[1] + q[1]) / 2)


def pt_eq(p, q):
    return conj([eq(p[0], q[0]), eq(p[1], q[1])])


def canon(events):
    """segment-pen events [(op, pts)] -> list of contours dict(closed, start, segs[(p0, kind, ctrls, p1)])"""
    out = []
    cur = None
    for op, pts in events:
        if op == 'moveTo':
            cur = dict(closed=False, start=pts[0], segs=[], last=pts[0])
            out.append(cur)
        elif op == 'lineTo':
            if not bool(pt_eq(cur['last'], pts[0])):
                cur['segs'].append((cur['last'], 'line', (), pts[0]))
            cur['last'] = pts[0]
        elif op == 'curveTo':
            if len(pts) == 3:
                cur['segs'].append((cur['last'], 'cubic', (pts[0], pts[1]), pts[2]))
                cur['last'] = pts[2]
            elif len(pts) == 2:
                cur['segs'].append((cur['last'], 'quad', (pts[0],), pts[1]))
                cur['last'] = pts[1]
            elif len(pts) == 1:
                if not bool(pt_eq(cur['last'], pts[0])):
                    cur['segs'].append((cur['last'], 'line', (), pts[0]))
                cur['last'] = pts[0]
            else:
                raise AssertionError('super-bezier in canonical form: decompose first')
        elif op == 'qCurveTo':
            pts = list(pts)
            if pts[-1] is None:
                # closed contour made of off-curve points only: implied on-curve between last and first
                offs = pts[:-1]
                start = mid(offs[-1], offs[0])
                cur = dict(closed=True, start=start, segs=[], last=start)
                out.append(cur)
                pts = offs + [start]
            offs, end = pts[:-1], pts[-1]
            if not offs:
                if not bool(pt_eq(cur['last'], end)):
                    cur['segs'].append((cur['last'], 'line', (), end))
                cur['last'] = end
            for i, c in enumerate(offs):
                p1 = mid(c, offs[i + 1]) if i + 1 < len(offs) else end
                cur['segs'].append((cur['last'], 'quad', (c,), p1))
                cur['last'] = p1
        elif op == 'closePath':
            cur['closed'] = True
            if not bool(pt_eq(cur['last'], cur['start'])):
                cur['segs'].append((cur['last'], 'line', (), cur['start']))
            cur['last'] = cur['start']
        elif op == 'endPath':
            pass
        else:
            raise AssertionError(op)
    return out


def seg_eq(a, b):
    if a[1] != b[1] or len(a[2]) != len(b[2]):
        return False
    return conj([pt_eq(a[0], b[0]), pt_eq(a[3], b[3])] + [pt_eq(x, y) for x, y in zip(a[2], b[2])])


def contour_eq(a, b):
    if len(a['segs']) != len(b['segs']):
        return False
    if not a['segs']:
        return pt_eq(a['start'], b['start'])
    if a['closed'] != b['closed']:
        return False
    n = len(a['segs'])
    if not a['closed']:
        return conj([seg_eq(x, y) for x, y in zip(a['segs'], b['segs'])])
    return disj([conj([seg_eq(a['segs'][i], b['segs'][(i + r) % n]) for i in range(n)]) for r in range(n)])


def outline_eq(A, B, drop_single_points=False):
    if drop_single_points:
        A = [c for c in A if c['segs']]
        B = [c for c in B if c['segs']]
    if len(A) != len(B):
        return False
    return conj([contour_eq(a, b) for a, b in zip(A, B)])


def reverse_canon(A):
    out = []
    for c in A:
        segs = [(s[3], s[1], tuple(reversed(s[2])), s[0]) for s in reversed(c['segs'])]
        start = c['start'] if c['closed'] or not c['segs'] else c['segs'][-1][3]
        out.append(dict(closed=c['closed'], start=start, segs=segs, last=start))
    return out


# ------------------------------------------------------------------------------------------------ shapes
def P(name):
    return (V.real(name + 'x', -1000, 1000), V.real(name + 'y', -1000, 1000))


def mkshape(name, prefix=''):
    """returns segment-pen events for the named shape with fresh symbolic points"""
    p = lambda i: P('%s%s%d' % (prefix, name, i))
    S = {
        'tri': lambda: [('moveTo', (p(0),)), ('lineTo', (p(1),)), ('lineTo', (p(2),)), ('closePath', ())],
        'lc': lambda: [('moveTo', (p(0),)), ('lineTo', (p(1),)), ('curveTo', (p(2), p(3), p(4))), ('closePath', ())],
        'ql': lambda: [('moveTo', (p(0),)), ('qCurveTo', (p(1), p(2))), ('lineTo', (p(3),)), ('closePath', ())],
        'q2': lambda: [('moveTo', (p(0),)), ('qCurveTo', (p(1), p(2), p(3))), ('closePath', ())],
        'cc': lambda: [('moveTo', (p(0),)), ('curveTo', (p(1), p(2), p(3))), ('curveTo', (p(4), p(5), p(6))), ('closePath', ())],
        'cl': lambda: [('moveTo', (p(0),)), ('curveTo', (p(1), p(2), p(3))), ('lineTo', (p(4),)), ('closePath', ())],
        'qoff': lambda: [('qCurveTo', (p(0), p(1), p(2), None)), ('closePath', ())],
        'dot': lambda: [('moveTo', (p(0),)), ('closePath', ())],
        'oline': lambda: [('moveTo', (p(0),)), ('lineTo', (p(1),)), ('endPath', ())],
        'ocl': lambda: [('moveTo', (p(0),)), ('curveTo', (p(1), p(2), p(3))), ('lineTo', (p(4),)), ('endPath', ())],
        'odot': lambda: [('moveTo', (p(0),)), ('endPath', ())],
        'oqq': lambda: [('moveTo', (p(0),)), ('qCurveTo', (p(1), p(2))), ('qCurveTo', (p(3), p(4), p(5))), ('endPath', ())],
        'lq': lambda: [('moveTo', (p(0),)), ('lineTo', (p(1),)), ('qCurveTo', (p(2), p(3))), ('closePath', ())],
    }
    return S[name]()


CLOSED = ['tri', 'lc', 'ql', 'q2', 'cc', 'cl', 'qoff', 'dot', 'lq']
OPEN = ['oline', 'ocl', 'odot', 'oqq']


def replay(events, pen):
    for op, pts in events:
        getattr(pen, op)(*pts)


def record(fn):
    rec = RP.RecordingPen()
    fn(rec)
    return rec.value


# ------------------------------------------------------------------------------------------------ reversing
@kernel('C14', funcs=['pens/reverseContourPen.py:reversedContour', 'pens/reverseContourPen.py:ReverseContourPen.filterContour', 'pens/areaPen.py:AreaPen._lineTo',
                      'pens/areaPen.py:AreaPen._curveToOne', 'pens/areaPen.py:AreaPen._qCurveToOne', 'pens/basePen.py:BasePen.qCurveTo'],
        bounds='13 contour shapes (closed and open; lines, cubics, quadratics with 1-2 off-curves, the all-off-curve quadratic contour, single points), '
               'all coordinates symbolic reals; outputImpliedClosingLine in {False, True}: reversed geometry = reverse of the geometry; reversing twice '
               'restores it; signed area negated',
        quick=[dict(shape=s, oicl=False) for s in CLOSED + OPEN] + [dict(shape=s, oicl=True) for s in ('tri', 'cl', 'lq')],
        thorough=[dict(shape=s, oicl=o) for s in CLOSED + OPEN for o in (False, True)])
def reverse_contour(shape, oicl):
    name = shape
    ev = mkshape(name)
    rev = record(lambda pen: replay(ev, RC.ReverseContourPen(pen, outputImpliedClosingLine=oicl)))
    A = canon(ev)
    B = canon(rev)
    observe('n_events', len(rev))
    ob('reversed-geometry', outline_eq(B, reverse_canon(A)))
    rev2 = record(lambda pen: replay(rev, RC.ReverseContourPen(pen, outputImpliedClosingLine=oicl)))
    ob('twice-restores', outline_eq(canon(rev2), A))
    if name in CLOSED and name != 'dot':
        a1 = AP.AreaPen()
        replay(ev, a1)
        a2 = AP.AreaPen()
        replay(rev, a2)
        ob('area-negated', eq(a1.value, -a2.value))


# ------------------------------------------------------------------------------------------------ segment <-> point protocol, record/replay
@kernel('C14', funcs=['pens/pointPen.py:SegmentToPointPen.closePath', 'pens/pointPen.py:SegmentToPointPen._flushContour', 'pens/pointPen.py:PointToSegmentPen._flushContour',
                      'pens/pointPen.py:BasePointToSegmentPen.endPath', 'pens/recordingPen.py:RecordingPen.replay', 'pens/recordingPen.py:RecordingPointPen.replay'],
        bounds='the 13 shapes, all coordinates symbolic: segment -> point (SegmentToPointPen) -> segment (PointToSegmentPen, outputImpliedClosingLine in '
               '{False, True}) gives the same canonical outline; RecordingPen.replay and RecordingPointPen.replay are identities',
        outside=['GuessSmoothPointPen (atan2; sets only the smooth flag, not geometry): SegmentToPointPen is driven with guessSmooth=False'],
        quick=[dict(shape=s, oicl=False) for s in CLOSED + OPEN] + [dict(shape='tri', oicl=True), dict(shape='lc', oicl=True)],
        thorough=[dict(shape=s, oicl=o) for s in CLOSED + OPEN for o in (False, True)])
def segment_point_roundtrip(shape, oicl):
    ev = mkshape(shape)
    out = record(lambda pen: replay(ev, PP.SegmentToPointPen(PP.PointToSegmentPen(pen, outputImpliedClosingLine=oicl), guessSmooth=False)))
    ob('same-outline', outline_eq(canon(out), canon(ev)))
    rec = RP.RecordingPen()
    replay(ev, rec)
    rec2 = RP.RecordingPen()
    rec.replay(rec2)
    ob('recording-replay-identity', rec.value == rec2.value if not symbolic() else outline_eq(canon(rec2.value), canon(ev)) and len(rec2.value) == len(ev))
    # point-level record / replay
    prec = RP.RecordingPointPen()
    replay(ev, PP.SegmentToPointPen(prec, guessSmooth=False))
    prec2 = RP.RecordingPointPen()
    prec.replay(prec2)
    ob('point-recording-replay-identity', len(prec.value) == len(prec2.value) and all(a[0] == b[0] for a, b in zip(prec.value, prec2.value)))




# ------------------------------------------------------------------------------------------------ transform
def sym_transform(prefix='t'):
    return tuple(V.real(prefix + n, -3, 3) for n in ('xx', 'xy', 'yx', 'yy')) + (V.real(prefix + 'dx', -500, 500), V.real(prefix + 'dy', -500, 500))


def apply_affine(t, p):
    xx, xy, yx, yy, dx, dy = t
    return (xx * p[0] + yx * p[1] + dx, xy * p[0] + yy * p[1] + dy)


@kernel('C14', funcs=['pens/transformPen.py:TransformPen.moveTo', 'pens/transformPen.py:TransformPen.curveTo', 'pens/transformPen.py:TransformPen.qCurveTo',
                      'pens/transformPen.py:TransformPen._transformPoints', 'misc/transform.py:Transform.transformPoint', 'misc/transform.py:Transform.transformPoints'],
        bounds='shapes lc, q2, qoff, ocl with symbolic coordinates and a symbolic affine 6-tuple: every emitted point is the affine image (x\' = xx*x + yx*y + dx, '
               'y\' = xy*x + yy*y + dy) of the input point, same operators',
        quick=[dict(shape=s) for s in ('lc', 'q2', 'qoff', 'ocl')])
def transform_pen(shape):
    ev = mkshape(shape)
    t = sym_transform()
    out = record(lambda pen: replay(ev, TP.TransformPen(pen, t)))
    ob('same-operators', [e[0] for e in out] == [e[0] for e in ev])
    conds = []
    for (op, pts), (op2, pts2) in zip(ev, out):
        if len(pts) != len(pts2):
            conds.append(False)
            continue
        for p, q in zip(pts, pts2):
            if p is None or q is None:
                conds.append(p is None and q is None)
            else:
                conds.append(pt_eq(apply_affine(t, p), q))
    ob('affine-image', conj(conds))


@kernel('C14', funcs=['misc/transform.py:Transform.inverse', 'misc/transform.py:Transform.transform', 'misc/transform.py:Transform.reverseTransform',
                      'misc/transform.py:Transform.translate', 'misc/transform.py:Transform.scale', 'misc/transform.py:Transform.transformPoint'],
        bounds='ALL real affine matrices with non-zero determinant (entries in [-3, 3], offsets in [-500, 500]) and ALL points: inverse() undoes the '
               'transform in both orders; t1.transform(t2) maps a point like applying t2 first and then t1; reverseTransform the other way round; '
               'translate/scale compose as documented',
        quick=[dict()])
def transform_algebra():
    t = TR.Transform(*sym_transform('a'))
    p = P('p')
    det = t[0] * t[3] - t[1] * t[2]
    assume(neg(eq(det, 0)))
    inv = t.inverse()
    q = t.transformPoint(p)
    back = inv.transformPoint(q)
    ob('inverse-after', pt_eq(back, p))
    back2 = t.transformPoint(inv.transformPoint(p))
    ob('inverse-before', pt_eq(back2, p))
    comp = t.transform(inv)
    ob('t.transform(t.inverse())-is-identity', conj([eq(comp[0], 1), eq(comp[1], 0), eq(comp[2], 0), eq(comp[3], 1), eq(comp[4], 0), eq(comp[5], 0)]))
    u = TR.Transform(*sym_transform('b'))
    ob('transform-composition', pt_eq(t.transform(u).transformPoint(p), t.transformPoint(u.transformPoint(p))))
    ob('reverseTransform-composition', pt_eq(t.reverseTransform(u).transformPoint(p), u.transformPoint(t.transformPoint(p))))
    ob('transformPoint-formula', pt_eq(q, apply_affine(tuple(t), p)))
    s = V.real('sx', -3, 3)
    ob('translate', pt_eq(t.translate(s, 2).transformPoint(p), t.transformPoint((p[0] + s, p[1] + 2))))
    ob('scale', pt_eq(t.scale(s, 2).transformPoint(p), t.transformPoint((p[0] * s, p[1] * 2))))


# ------------------------------------------------------------------------------------------------ rounding
@kernel('C14', funcs=['pens/roundingPen.py:RoundingPen.moveTo', 'pens/roundingPen.py:RoundingPen.curveTo', 'pens/roundingPen.py:RoundingPen.qCurveTo', 'misc/roundTools.py:otRound'],
        bounds='shapes lc, q2, qoff with symbolic real coordinates: every emitted coordinate is the integer n with n - 1/2 <= v < n + 1/2 (otRound), same operators',
        quick=[dict(shape=s) for s in ('lc', 'q2', 'qoff')])
def rounding_pen(shape):
    ev = mkshape(shape)
    out = record(lambda pen: replay(ev, RO.RoundingPen(pen)))
    ob('same-operators', [e[0] for e in out] == [e[0] for e in ev])
    conds = []
    for (op, pts), (op2, pts2) in zip(ev, out):
        for p, q in zip(pts, pts2):
            if p is None:
                conds.append(q is None)
                continue
            for v, n in zip(p, q):
                conds.append(conj([is_int(n), le(n - 0.5, v), lt(v, n + 0.5)]))
    ob('otRound-of-every-coordinate', conj(conds))


# ------------------------------------------------------------------------------------------------ super-bezier consistency
@kernel('C14', funcs=['pens/basePen.py:BasePen.curveTo', 'pens/basePen.py:decomposeSuperBezierSegment', 'pens/areaPen.py:AreaPen._curveToOne', 'pens/boundsPen.py:ControlBoundsPen._curveToOne',
                      'pens/boundsPen.py:BoundsPen._curveToOne'],
        bounds='closed contour moveTo + curveTo with n in 3..5 off-curve points (a "super-bezier") + lineTo, symbolic coordinates: measuring pens give the '
               'same result as on the same contour fed as the individual cubic segments decomposeSuperBezierSegment yields (area: polynomial identity); the '
               'current point seen by _curveToOne is the end of the previous sub-segment',
        quick=[dict(n=3), dict(n=4)], thorough=[dict(n=3), dict(n=4), dict(n=5)])
def super_bezier_consistency(n):
    p0 = P('s')
    offs = [P('o%d' % i) for i in range(n)]
    end = P('e')
    back = P('b')

    def whole(pen):
        pen.moveTo(p0)
        pen.curveTo(*(offs + [end]))
        pen.lineTo(back)
        pen.closePath()

    def pieces(pen):
        pen.moveTo(p0)
        for a, b, c in BP.decomposeSuperBezierSegment(offs + [end]):
            pen.curveTo(a, b, c)
        pen.lineTo(back)
        pen.closePath()
    a1, a2 = AP.AreaPen(), AP.AreaPen()
    whole(a1)
    pieces(a2)
    ob('area', eq(a1.value, a2.value))

    class StartSeen(BP.BasePen):
        def __init__(self):
            BP.BasePen.__init__(self)
            self.seen = []

        def _moveTo(self, pt):
            pass

        def _lineTo(self, pt):
            pass

        def _curveToOne(self, a, b, c):
            self.seen.append((self._getCurrentPoint(), c))
    s = StartSeen()
    whole(s)
    ob('sub-segment-count', len(s.seen) == n - 1)
    chain = [pt_eq(s.seen[0][0], p0)] + [pt_eq(s.seen[i][0], s.seen[i - 1][1]) for i in range(1, len(s.seen))]
    ob('current-point-is-previous-end', conj(chain))


# ------------------------------------------------------------------------------------------------ TrueType glyph building and drawing
def canon_points(contours):
    """point-pen contours [[(pt, type)]] (closed; type None = off-curve, 'line'/'qcurve' = on-curve) -> canonical outline, from the
    TrueType outline semantics: consecutive off-curves have an implied on-curve at their midpoint"""
    out = []
    for pts in contours:
        n = len(pts)
        if n == 1:
            out.append(dict(closed=True, start=pts[0][0], segs=[], last=pts[0][0]))
            continue
        ons = [i for i, (p, t) in enumerate(pts) if t is not None]
        if ons:
            k = ons[0]
            seq = pts[k:] + pts[:k]
            start = seq[0][0]
            rest = seq[1:] + [seq[0]]
        else:
            start = mid(pts[-1][0], pts[0][0])
            rest = list(pts) + [(start, 'qcurve')]
        c = dict(closed=True, start=start, segs=[], last=start)
        pending = []
        for p, t in rest:
            if t is None:
                pending.append(p)
                continue
            if not pending:
                if not bool(pt_eq(c['last'], p)):
                    c['segs'].append((c['last'], 'line', (), p))
                c['last'] = p
            else:
                for i, o in enumerate(pending):
                    p1 = mid(o, pending[i + 1]) if i + 1 < len(pending) else p
                    c['segs'].append((c['last'], 'quad', (o,), p1))
                    c['last'] = p1
                pending = []
        out.append(c)
    return out


TT_CONTOURS = {
    'tri': [['line', 'line', 'line']],
    'oo+on': [[None, None, 'qcurve']],                       # starts off-curve, ends on-curve (possibly the implied midpoint)
    'on+o+on+o': [['line', None, 'qcurve', None]],
    'two': [[None, None, 'qcurve'], ['line', 'line', 'line']],
    'two2': [['line', None, 'qcurve', None], [None, 'qcurve', None]],
    'alloff': [[None, None, None]],
    'dot+tri': [['line'], ['line', 'line', 'line']],
}


@kernel('C14', funcs=['pens/ttGlyphPen.py:TTGlyphPointPen.addPoint', 'pens/ttGlyphPen.py:TTGlyphPointPen.endPath', 'pens/ttGlyphPen.py:_TTGlyphBasePen.glyph',
                      'ttLib/tables/_g_l_y_f.py:dropImpliedOnCurvePoints', 'ttLib/tables/_g_l_y_f.py:Glyph.draw', 'ttLib/tables/_g_l_y_f.py:_is_mid_point'],
        bounds='quadratic point contours from 7 patterns (1-2 contours of 1-4 points, on/off-curve types per pattern), ALL coordinates symbolic INTEGERS '
               'in [-400, 400]; built with TTGlyphPointPen.glyph(dropImpliedOnCurves in {False, True}) and drawn again with Glyph.draw: same canonical '
               'outline as the input points (single-point contours may be dropped); dropping is decided by the solver (on-curve exactly midway)',
        assumptions=['GlyphCoordinates.__getitem__ int/float type distinction outside the model (isint_false)'],
        shims=['array("d") over reals', 'array("B")'],
        quick=[dict(pat=p, drop=d) for p in ('tri', 'oo+on', 'on+o+on+o', 'two', 'alloff') for d in (False, True)],
        thorough=[dict(pat=p, drop=d) for p in TT_CONTOURS for d in (False, True)], isint_false=True, max_paths=100000)
def tt_glyph_roundtrip(pat, drop):
    contours = []
    for ci, types in enumerate(TT_CONTOURS[pat]):
        contours.append([((V.int('c%dx%d' % (ci, i), -400, 400, bv=False), V.int('c%dy%d' % (ci, i), -400, 400, bv=False)), t) for i, t in enumerate(types)])
    pen = TG.TTGlyphPointPen(None)
    for c in contours:
        pen.beginPath()
        for p, t in c:
            pen.addPoint(p, t)
        pen.endPath()
    g = pen.glyph(dropImpliedOnCurves=drop)
    observe('npoints', len(g.coordinates))
    rec = RP.RecordingPen()
    g.draw(rec, None)
    want = canon_points(contours)
    got = canon(rec.value)
    ob('same-outline', outline_eq(got, want, drop_single_points=True))
    if not drop:
        ob('point-count-kept', len(g.coordinates) == sum(len(c) for c in contours if len(c) > 0))


# ------------------------------------------------------------------------------------------------ CFF glyph building and drawing
import fontTools.pens.t2CharStringPen as T2P
import fontTools.misc.psCharStrings as PSC
import fontTools.cffLib.specializer as SPZ
shim_all(T2P, PSC, SPZ)


def ishape(name):
    """the shapes of mkshape with symbolic INTEGER coordinates (a CFF charstring built with roundTolerance 0.5 stores integers)"""
    n = [0]

    def p(i):
        return (V.int('%s%dx' % (name, i), -400, 400, bv=False), V.int('%s%dy' % (name, i), -400, 400, bv=False))
    S = {
        'tri': lambda: [('moveTo', (p(0),)), ('lineTo', (p(1),)), ('lineTo', (p(2),)), ('closePath', ())],
        'lc': lambda: [('moveTo', (p(0),)), ('lineTo', (p(1),)), ('curveTo', (p(2), p(3), p(4))), ('closePath', ())],
        'cc': lambda: [('moveTo', (p(0),)), ('curveTo', (p(1), p(2), p(3))), ('curveTo', (p(4), p(5), p(6))), ('closePath', ())],
        'ccl': lambda: [('moveTo', (p(0),)), ('curveTo', (p(1), p(2), p(3))), ('curveTo', (p(4), p(5), p(6))), ('lineTo', (p(7),)), ('closePath', ())],
        'two': lambda: [('moveTo', (p(0),)), ('lineTo', (p(1),)), ('lineTo', (p(2),)), ('closePath', ()), ('moveTo', (p(3),)), ('curveTo', (p(4), p(5), p(6))), ('closePath', ())],
    }
    return S[name]()


@kernel('C14', funcs=['pens/t2CharStringPen.py:T2CharStringPen.getCharString', 'pens/t2CharStringPen.py:T2CharStringPen._curveToOne', 'cffLib/specializer.py:specializeCommands',
                      'misc/psCharStrings.py:T2CharString.draw', 'misc/psCharStrings.py:T2OutlineExtractor.op_vvcurveto', 'misc/psCharStrings.py:T2OutlineExtractor.op_hhcurveto'],
        bounds='outlines of 5 shapes (lines, one or two consecutive cubics, two contours) with symbolic INTEGER coordinates - zero / non-zero patterns of every '
               'delta, which select the specialised h/v operator forms and their merging, are solver forks - built into a CFF charstring with T2CharStringPen '
               '(optimize in {True, False}, symbolic width) and drawn again: same canonical outline, same width',
        quick=[dict(shape=s, opt=True) for s in ('tri', 'lc', 'cc')] + [dict(shape='cc', opt=False)], thorough=[dict(shape=s, opt=o) for s in ('tri', 'lc', 'cc', 'ccl', 'two') for o in (True, False)],
        max_paths=200000)
def t2_pen_roundtrip(shape, opt):
    ev = ishape(shape)
    width = V.int('width', 0, 1000, bv=False)
    pen = T2P.T2CharStringPen(width, None)
    replay(ev, pen)
    priv = type('P', (), {'nominalWidthX': 0, 'defaultWidthX': 500})()
    cs = pen.getCharString(private=priv, optimize=opt)
    rec = RP.RecordingPen()
    cs.draw(rec)
    observe('n_tokens', len(cs.program))
    if opt:
        # the default (optimising) charstring keeps the FILLED outline: zero-length lines go, a curve whose control points sit on its end
        # points is a line, consecutive collinear horizontal / vertical lines merge (C12's canonical form), then closing line and start
        # point are normalised as everywhere in this file
        from harness.C12_charstring import canonical as fill_canon
        ob('same-outline', outline_eq(canon(fill_canon(rec.value)), canon(fill_canon([(op, tuple(pts)) for op, pts in ev]))))
    else:
        ob('same-outline', outline_eq(canon(rec.value), canon(ev)))
    ob('same-width', eq(cs.width, width))


@kernel('C14', funcs=['pens/boundsPen.py:ControlBoundsPen._moveTo', 'pens/boundsPen.py:ControlBoundsPen._addMoveTo', 'pens/boundsPen.py:ControlBoundsPen._lineTo',
                      'pens/boundsPen.py:ControlBoundsPen._curveToOne', 'pens/boundsPen.py:ControlBoundsPen._qCurveToOne', 'misc/arrayTools.py:updateBounds'],
        bounds='contours of 2-4 points (a line, one quadratic, one cubic; closed and open; a lone moveTo) with symbolic coordinates, ignoreSinglePoints in '
               '{False, True}: the control bounds are exactly the min / max over ALL points of the drawn contours (the start point included), and a contour '
               'consisting of a single point is ignored exactly when ignoreSinglePoints is set',
        quick=[dict(shape=s, isp=i) for s in ('line', 'quad', 'cubic', 'quad-open') for i in (False, True)] + [dict(shape='dot+line', isp=True)],
        max_paths=200000)
def control_bounds_are_minmax(shape, isp):
    p = [P('c%d' % i) for i in range(5)]
    S = {
        'line': [('moveTo', (p[0],)), ('lineTo', (p[1],)), ('closePath', ())],
        'quad': [('moveTo', (p[0],)), ('qCurveTo', (p[1], p[2])), ('closePath', ())],
        'quad-open': [('moveTo', (p[0],)), ('qCurveTo', (p[1], p[2])), ('endPath', ())],
        'cubic': [('moveTo', (p[0],)), ('curveTo', (p[1], p[2], p[3])), ('closePath', ())],
        'dot+line': [('moveTo', (p[0],)), ('closePath', ()), ('moveTo', (p[1],)), ('lineTo', (p[2],)), ('closePath', ())],
    }[shape]
    pen = BO.ControlBoundsPen(None, ignoreSinglePoints=isp)
    replay(S, pen)
    pts = []
    contour = []
    for op, a in S:
        if op == 'moveTo':
            contour = [a[0]]
        elif op in ('closePath', 'endPath'):
            if len(contour) > 1 or not isp:
                pts += contour
        else:
            contour += [q for q in a if q is not None]
    b = pen.bounds
    ob('bounds-exist', b is not None)
    if b is None:
        return
    xs, ys = [q[0] for q in pts], [q[1] for q in pts]

    def is_min(v, vals, sign):
        return conj([disj([eq(v, w) for w in vals])] + [le(sign * v, sign * w) for w in vals])
    ob('control-bounds-are-min-max-of-all-points', conj([is_min(b[0], xs, 1), is_min(b[1], ys, 1), is_min(b[2], xs, -1), is_min(b[3], ys, -1)]))
