"""C09 kernels: variation arithmetic is exact (exact rational arithmetic: z3 reals; replay with Fractions)."""
import itertools
from fractions import Fraction as Fr
from sx.api import kernel, shim_all, V, ob, observe, eq, conj, disj, neg, assume, symbolic, seq_eq, le, lt, ite, real_of
from fontTools.varLib.instancer import solver as S
from fontTools.varLib.instancer import NormalizedAxisTripleAndDistances as NAT
import fontTools.varLib.models as M
from fontTools.varLib.models import VariationModel, supportScalar

rebaseTent = S.rebaseTent.__wrapped__      # the real function, without the lru_cache (keys would be hashed)


def _div(a, b):
    """a / b for the reference model: b is non-zero whenever the value is used"""
    if symbolic():
        import z3
        from sx.sym import SReal, rexpr
        return SReal(rexpr(a) / rexpr(b))
    return a / b if b != 0 else 0


def spec_tent(v, tent, fork=False):
    """OpenType tent scalar for ONE axis, written from the spec (independent of supportScalar): value at v of the region
    (lower, peak, upper); regions the spec says to ignore (peak 0, out of order, straddling 0) evaluate to 1.
    fork=True decides the case analysis by path forks (each path then carries a polynomial obligation without if-then-else,
    which is what keeps the non-linear queries easy); fork=False builds one if-then-else term."""
    lower, peak, upper = tent
    ignored = disj([eq(peak, 0), lt(peak, lower), lt(upper, peak), conj([lt(lower, 0), lt(0, upper)])])
    if fork:
        if bool(ignored):
            return 1
        if bool(eq(v, peak)):
            return 1
        if bool(disj([le(v, lower), le(upper, v)])):
            return 0
        if bool(lt(v, peak)):
            return _div(v - lower, peak - lower)
        return _div(upper - v, upper - peak)
    inner = ite(eq(v, peak), 1,
                ite(disj([le(v, lower), le(upper, v)]), 0,
                    ite(lt(v, peak), _div(v - lower, peak - lower), _div(upper - v, upper - peak))))
    return ite(ignored, 1, inner)


def well_formed_tent(lo, pk, up):
    """the property's domain: lower <= peak <= upper, peak != 0, not straddling zero, continuous over the axis range [-1, 1]"""
    assume(le(lo, pk))
    assume(le(pk, up))
    assume(neg(eq(pk, 0)))
    assume(neg(conj([lt(lo, 0), lt(0, up)])))
    assume(disj([lt(lo, pk), le(pk, -1)]))
    assume(disj([lt(pk, up), le(1, pk)]))


@kernel('C09', funcs=['varLib/instancer/solver.py:rebaseTent', 'varLib/instancer/solver.py:_solve', 'varLib/instancer/solver.py:_reverse_negate',
                       'varLib/instancer/__init__.py:NormalizedAxisTripleAndDistances.renormalizeValue', 'varLib/models.py:supportScalar'],
        bounds='ALL real tents (lower, peak, upper) in [-2, 2]^3 in the property\'s domain (ordered, peak != 0, not straddling 0, continuous on '
               '[-1, 1]) x ALL axis limits -1 <= min <= default <= max <= 1 x ALL locations x in [min, max]; distances (1, 1) in quick, '
               'symbolic positive distances in thorough',
        assumptions=['tent continuity precondition as stated in the property (a discontinuous tent gives real, replaying mismatches that are outside the stated domain)'],
        quick=[dict(dist=False)], thorough=[dict(dist=False), dict(dist=True)], exact=False, max_paths=400000, timeout_ms=60000)
def rebase_tent(dist):
    lo, pk, up = V.real('lower', -2, 2), V.real('peak', -2, 2), V.real('upper', -2, 2)
    amin, adef, amax = V.real('axisMin', -1, 1), V.real('axisDef', -1, 1), V.real('axisMax', -1, 1)
    x = V.real('x')
    well_formed_tent(lo, pk, up)
    assume(le(amin, adef))
    assume(le(adef, amax))
    assume(le(amin, x))
    assume(le(x, amax))
    if dist:
        dn, dp = V.real('distNeg', Fr(1, 100), 100), V.real('distPos', Fr(1, 100), 100)
    else:
        dn, dp = 1, 1
    limit = NAT(amin, adef, amax, dn, dp)
    tent = (lo, pk, up)
    sols = rebaseTent(tent, limit)
    xn = limit.renormalizeValue(x)
    total = 0
    for scalar, t in sols:
        if t is None:
            total = total + scalar
        else:
            total = total + scalar * spec_tent(xn, t, fork=True)
            # what OpenType requires of a region the instancer emits
            ob('output-tent-ordered', conj([le(t[0], t[1]), le(t[1], t[2])]))
            ob('output-tent-peak-nonzero', neg(eq(t[1], 0)))
    want = spec_tent(x, tent, fork=True)
    observe('value', real_of(want) if symbolic() else want)
    ob('value-preserved', eq(total, want))
    ob('library-scalar-agrees-with-spec', eq(supportScalar({'t': x}, {'t': tent}), want))


# ---------------------------------------------------------------------------- VariationModel
LATTICE = [Fr(-1), Fr(-1, 2), Fr(0), Fr(1, 4), Fr(1, 2), Fr(1)]


def lattice_points(naxes):
    pts = []
    tags = ['wght', 'wdth'][:naxes]
    for vals in itertools.product(LATTICE, repeat=naxes):
        loc = {t: v for t, v in zip(tags, vals) if v != 0}
        if loc:
            pts.append(loc)
    return pts


def location_sets(naxes, size):
    """all sets of `size` distinct master locations containing the origin"""
    pts = lattice_points(naxes)
    for comb in itertools.combinations(range(len(pts)), size - 1):
        yield [{}] + [pts[i] for i in comb]


def _chunks(naxes, size, nchunks):
    return [dict(naxes=naxes, size=size, chunk=c, nchunks=nchunks) for c in range(nchunks)]


def _num(x):
    return x if symbolic() else x


@kernel('C09', funcs=['varLib/models.py:VariationModel.__init__', 'varLib/models.py:VariationModel._computeMasterSupports',
                       'varLib/models.py:VariationModel._computeDeltaWeights', 'varLib/models.py:VariationModel.getDeltas',
                       'varLib/models.py:VariationModel.getScalars', 'varLib/models.py:VariationModel.getMasterScalars',
                       'varLib/models.py:VariationModel.interpolateFromMasters', 'varLib/models.py:VariationModel.interpolateFromDeltas',
                       'varLib/models.py:supportScalar'],
        bounds='EVERY set of master locations of the given size containing the origin on the lattice {-1,-1/2,0,1/4,1/2,1}^k '
               '(k=1: sizes 2..6 complete; k=2: sizes 2..4 complete in quick, size 5 complete in thorough), master values symbolic reals',
        outside=['3-4 axes', 'locations off the lattice', 'extrapolate=True'],
        quick=_chunks(1, 2, 1) + _chunks(1, 3, 1) + _chunks(1, 4, 1) + _chunks(1, 5, 1) + _chunks(1, 6, 1)
        + _chunks(2, 2, 1) + _chunks(2, 3, 2) + _chunks(2, 4, 12),
        thorough=_chunks(1, 2, 1) + _chunks(1, 3, 1) + _chunks(1, 4, 1) + _chunks(1, 5, 1) + _chunks(1, 6, 1)
        + _chunks(2, 2, 1) + _chunks(2, 3, 2) + _chunks(2, 4, 12) + _chunks(2, 5, 64),
        exact=True)
def model_masters_exact(naxes, size, chunk, nchunks):
    vals = [V.real('m%d' % i) for i in range(size)]
    nsets = 0
    for idx, locs in enumerate(location_sets(naxes, size)):
        if idx % nchunks != chunk:
            continue
        nsets += 1
        locs = [{k: (v if not symbolic() else v) for k, v in l.items()} for l in locs]
        model = VariationModel(locs)
        deltas = model.getDeltas(list(vals))
        tag = 'set%d' % idx
        conds_m, conds_d, conds_s = [], [], []
        for i, loc in enumerate(locs):
            got = model.interpolateFromMasters(loc, list(vals))
            conds_m.append(eq(got if got is not None else 0, vals[i]))
            got2 = model.interpolateFromDeltas(loc, deltas)
            conds_d.append(eq(got2 if got2 is not None else 0, vals[i]))
            # master scalars at a master location are the unit vector
            ms = model.getMasterScalars(loc)
            conds_s.append(conj([eq(s, 1 if j == i else 0) for j, s in enumerate(ms)]))
        ob('masters-reproduced-from-masters', conj(conds_m))
        ob('masters-reproduced-from-deltas', conj(conds_d))
        ob('master-scalars-unit', conj(conds_s))
    observe('sets', nsets)


@kernel('C09', funcs=['varLib/models.py:VariationModel.getScalars', 'varLib/models.py:VariationModel.getMasterScalars',
                       'varLib/models.py:VariationModel.getDeltas', 'varLib/models.py:supportScalar'],
        bounds='location sets on the same lattice (1 axis: all sets of sizes 2-4; 2 axes: all sets of size 2 and every 8th set of size 3 in '
               'quick; all sets of size 3 and every 40th of size 4 in thorough), master values symbolic, evaluation location SYMBOLIC in '
               '[-1, 1]^k (each cell of the arrangement of lattice thresholds is one path): evaluating the stored deltas equals '
               'weighting the masters directly, and each support evaluated by the library equals the product of spec tents',
        quick=[dict(naxes=1, size=2), dict(naxes=1, size=3), dict(naxes=1, size=4), dict(naxes=2, size=2)]
        + [dict(naxes=2, size=3, chunk=c, nchunks=8 * 8) for c in range(8)],
        thorough=[dict(naxes=1, size=s) for s in (2, 3, 4, 5)] + [dict(naxes=2, size=2)]
        + [dict(naxes=2, size=3, chunk=c, nchunks=16) for c in range(16)]
        + [dict(naxes=2, size=4, chunk=c, nchunks=40 * 16) for c in range(16)],
        exact=True, max_paths=400000)
def model_deltas_equal_masters(naxes, size, chunk=0, nchunks=1):
    tags = ['wght', 'wdth'][:naxes]
    vals = [V.real('m%d' % i) for i in range(size)]
    loc = {t: V.real('at_' + t, -1, 1) for t in tags}
    for idx, locs in enumerate(location_sets(naxes, size)):
        if idx % nchunks != chunk:
            continue
        model = VariationModel([dict(l) for l in locs])
        deltas = model.getDeltas(list(vals))
        a = model.interpolateFromDeltas(loc, deltas)
        b = model.interpolateFromMasters(loc, list(vals))
        ob('deltas-equal-masters', eq(a if a is not None else 0, b if b is not None else 0))
        scal = model.getScalars(loc)
        conds = []
        for sc, sup in zip(scal, model.supports):
            want = 1
            for ax, t in sup.items():
                want = want * spec_tent(loc[ax], t)
            conds.append(eq(sc, want))
        ob('support-scalars-match-spec', conj(conds))


# ---------------------------------------------------------------------------- IUP
import fontTools.varLib.iup as IUP
shim_all(IUP)

CONTOURS = {
    'tri': [(0, 0), (100, 0), (50, 80)],
    'edge-mid': [(0, 0), (50, 0), (100, 0), (100, 100)],
    'collinear': [(0, 0), (10, 0), (20, 0)],
    'dup': [(0, 0), (0, 0), (10, 10)],
    'diamond': [(50, 0), (100, 50), (50, 100), (0, 50)],
    'two': [(0, 0), (30, 40)],
    'one': [(7, 9)],
    'penta': [(0, 0), (40, 0), (80, 0), (80, 60), (0, 60)],
}
PHANTOM_C = [(0, 0), (600, 0), (0, 800), (0, -200)]


def within(d, r, tol):
    """Euclidean |d - r| <= tol through squares"""
    dx, dy = d[0] - r[0], d[1] - r[1]
    return le(dx * dx + dy * dy, tol * tol)


F_IUP = ['varLib/iup.py:iup_delta_optimize', 'varLib/iup.py:iup_contour_optimize', 'varLib/iup.py:_iup_contour_bound_forced_set',
         'varLib/iup.py:_iup_contour_optimize_dp', 'varLib/iup.py:can_iup_in_between', 'varLib/iup.py:iup_segment',
         'varLib/iup.py:iup_delta', 'varLib/iup.py:iup_contour']
FIXED_D = [(3, -2), (7, 5), (-4, 6), (10, 1), (-6, -8)]


def _iup_check(coords, deltas, tolerance):
    n = len(coords)
    allc = coords + PHANTOM_C
    alld = deltas + [(0, 0), (12, 0), (0, 0), (0, 0)]
    ends = [n - 1]
    opt = IUP.iup_delta_optimize(list(alld), list(allc), list(ends), tolerance)
    ob('length', len(opt) == len(alld))
    rec = list(IUP.iup_delta([None if d is None else tuple(d) for d in opt], list(allc), list(ends)))
    ob('reconstructed-within-tolerance', conj([within(d, r, tolerance) for d, r in zip(alld, rec)]))
    ob('kept-deltas-unchanged', conj([True if o is None else conj([eq(o[0], d[0]), eq(o[1], d[1])]) for o, d in zip(opt, alld)]))
    observe('explicit-points', sum(1 for o in opt if o is not None))


@kernel('C09', funcs=F_IUP,
        bounds='exact reconstruction (tolerance 0): one contour from a fixed set of concrete coordinate shapes (1-4 points: triangle, point on '
               'an edge, collinear, duplicate points, diamond) + 4 phantom points; ALL point deltas symbolic reals in [-50, 50]^2',
        outside=['symbolic coordinates (bilinear in coordinate x delta)', 'several contours', 'more than 5 points'],
        shims=['complex -> SComplex, abs(complex) compared through squares'],
        quick=[dict(shape=s) for s in ('one', 'two', 'tri', 'collinear', 'dup')],
        thorough=[dict(shape=s) for s in ('one', 'two', 'tri', 'collinear', 'dup', 'edge-mid', 'diamond')],
        max_paths=400000, timeout_ms=60000)
def iup_optimize_exact(shape):
    coords = list(CONTOURS[shape])
    deltas = [(V.real('dx%d' % i, -50, 50), V.real('dy%d' % i, -50, 50)) for i in range(len(coords))]
    _iup_check(coords, deltas, 0)


def _free_params(shapes, tols, nfree):
    out = []
    for s in shapes:
        n = len(CONTOURS[s])
        for free in itertools.combinations(range(n), nfree):
            for t in tols:
                out.append(dict(shape=s, free=list(free), tol=t))
    return out


@kernel('C09', funcs=F_IUP,
        bounds='positive tolerance (Euclidean, compared through squares): same shapes; the deltas of `free` points (1 point in quick, 1-2 in '
               'thorough) are symbolic reals in [-50, 50]^2, the other points carry fixed deltas; tolerance in {1, 5/2}',
        outside=['all deltas symbolic with a positive tolerance (z3 nlsat answers unknown on some branches: measured)'],
        shims=['complex -> SComplex, abs(complex) compared through squares'],
        quick=_free_params(('two', 'tri', 'edge-mid', 'collinear', 'diamond'), (1,), 1),
        thorough=_free_params(('two', 'tri', 'edge-mid', 'collinear', 'dup', 'diamond', 'penta'), (1, '5/2'), 1)
        + _free_params(('tri', 'edge-mid', 'diamond'), (1,), 2),
        max_paths=400000, timeout_ms=60000)
def iup_optimize_tolerance(shape, free, tol):
    coords = list(CONTOURS[shape])
    deltas = []
    for i in range(len(coords)):
        if i in free:
            deltas.append((V.real('dx%d' % i, -50, 50), V.real('dy%d' % i, -50, 50)))
        else:
            deltas.append(FIXED_D[i])
    _iup_check(coords, deltas, Fr(tol) if not isinstance(tol, int) else tol)      # '5/2' -> Fraction (task parameters must be JSON)


# ------------------------------------------------------------------------------------------------ sparse masters (shared with C10)
from harness import C10_build as _c10


@kernel('C09', funcs=['varLib/models.py:VariationModel.getSubModel', 'varLib/models.py:VariationModel.getDeltasAndSupports', 'varLib/models.py:VariationModel.reorderMasters',
                       'varLib/models.py:VariationModel.getDeltas'],
        bounds='sparse master sets (None entries) on lattice location sets, symbolic master values, incl. a sparse query, reorderMasters, and a second sparse '
               'query with the same presence flags: the deltas and supports returned evaluate exactly to every present master (see C10.sparse_masters_reproduced)',
        quick=[dict(locs='1d4u', present='1011', order=[0, 2, 1, 3]), dict(locs='2d4', present='1101', order=None)],
        thorough=[dict(locs=l, present=p, order=o) for l, p, o in (('1d3', '110', None), ('2d4', '1011', [0, 2, 1, 3]), ('1d4u', '1011', [0, 2, 1, 3]), ('2d5', '11101', [0, 2, 1, 3, 4]))])
def sparse_submodels_exact(locs, present, order):
    _c10.sparse_masters_reproduced(locs, present, order)


CONTOURS['quad-irregular'] = [(0, 10), (100, 60), (40, 20), (10, 50)]
CONTOURS['quad-skew'] = [(0, 0), (90, 10), (70, 80), (-20, 40)]


@kernel('C09', funcs=F_IUP,
        bounds='the case WITHOUT forced points (every delta small): contours of 3-5 points from the listed shapes, ALL point deltas symbolic INTEGERS in '
               '[-r, r]^2 (r = 1 quick, 2 thorough), tolerance 1/2 (the default): every reconstructed delta within tolerance, kept deltas unchanged',
        shims=['complex -> SComplex, abs(complex) compared through squares'],
        quick=[dict(shape=s, r=1) for s in ('tri', 'diamond', 'quad-irregular')],
        thorough=[dict(shape=s, r=r) for s in ('tri', 'diamond', 'quad-irregular', 'quad-skew', 'penta') for r in (1, 2)],
        max_paths=400000, timeout_ms=60000)
def iup_optimize_small_deltas(shape, r):
    coords = list(CONTOURS[shape])
    deltas = [(V.int('dx%d' % i, -r, r, bv=False), V.int('dy%d' % i, -r, r, bv=False)) for i in range(len(coords))]
    _iup_check(coords, deltas, Fr(1, 2))
