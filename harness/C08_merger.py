"""C08 kernels (layout merger side): what instantiateOTL's MutatorMerger and the master merger do to a PairPos lookup before they walk it."""
from sx.api import kernel, shim_all, V, ob, observe, eq, conj, disj, neg, assume, symbolic, le, lt
import fontTools.varLib.merger as MG
import fontTools.ttLib.tables.otTables as ot
from harness.C06_layout import _glyphpair, pair_lookup, same_pairs, _snapshot, GLYPHS
from harness.C02_roundtrip import Stub as _Font

F1_SHAPES = {
    # glyph-pair lists per subtable, in glyph order; a pair present in two subtables carries two different symbolic values: the FIRST one is the font's kerning
    'overlap': [[('a', 'b'), ('a', 'c'), ('b', 'c')], [('a', 'c'), ('a', 'd'), ('c', 'a')]],
    'same-pairs': [[('a', 'b'), ('a', 'c')], [('a', 'b'), ('a', 'c')]],
    'disjoint': [[('a', 'b')], [('b', 'a'), ('c', 'd')]],
    'three': [[('a', 'd')], [('a', 'c'), ('a', 'd')], [('a', 'b'), ('a', 'd'), ('b', 'a')]],
}


@kernel('C08', funcs=['varLib/merger.py:_Lookup_PairPosFormat1_subtables_flatten', 'varLib/merger.py:_PairSet_flatten', 'varLib/merger.py:_merge_GlyphOrders'],
        bounds='a kerning lookup of 2-3 glyph-pair (format 1) PairPos subtables (4 shapes: a pair listed in two subtables with different values, identical pair sets, disjoint '
               'sets, three subtables), symbolic advance adjustments: the single subtable they are flattened into before instancing / merging gives every glyph pair of the '
               '6-glyph universe the adjustment the OpenType lookup rule selects in the original list - for a pair listed twice, the FIRST record',
        quick=[dict(shape='overlap'), dict(shape='three')], thorough=[dict(shape=s) for s in F1_SHAPES])
def pairpos1_flatten_first_record_wins(shape):
    subs = [_glyphpair(pairs, 'adv', None, 'S%d' % i) for i, pairs in enumerate(F1_SHAPES[shape])]
    before = [_snapshot(st) for st in subs]
    flat = MG._Lookup_PairPosFormat1_subtables_flatten(subs, _Font(GLYPHS))
    observe('pairsets', [len(ps.PairValueRecord) for ps in flat.PairSet])
    ob('same-pairs', same_pairs(before, [flat], GLYPHS))
    ob('counts', flat.PairSetCount == len(flat.PairSet) == len(flat.Coverage.glyphs) and all(ps.PairValueCount == len(ps.PairValueRecord) for ps in flat.PairSet))


# ------------------------------------------------------------------------------------------------ metrics from phantom points (the step _instantiateGvarGlyph ends with)
import fontTools.ttLib.tables._g_l_y_f as GL
import fontTools.misc.roundTools as RT
from sx.api import is_int
from harness.C04_container import _simple_glyph, _is_rounded_min
shim_all(GL, RT)


def _is_otround(k, v):
    return conj([is_int(k), le(k - 0.5, v), lt(v, k + 0.5)])


@kernel('C08', funcs=['ttLib/tables/_g_l_y_f.py:table__g_l_y_f._setCoordinates', 'ttLib/tables/_g_l_y_f.py:Glyph.recalcBounds', 'misc/roundTools.py:otRound'],
        bounds='a simple glyph of 2 points whose new coordinates and four phantom points (left, right, top, bottom) are SYMBOLIC reals in [-3000, 3000] - the values a gvar '
               'instance produces: the advance width stored in hmtx is otRound(right - left) (0 when negative), the left side bearing otRound(xMin - left) with xMin the '
               'rounded minimum of the new outline, and likewise advance height = otRound(top - bottom), top side bearing = otRound(top - yMax); the left phantom point '
               'need not be at 0 (it is moved by gvar, or hmtx lsb differs from xMin)',
        shims=['array("d") over reals', 'round/int/math.floor'], quick=[dict(vert=False)], thorough=[dict(vert=False), dict(vert=True)], max_paths=50000)
def set_coordinates_metrics(vert):
    g, _ = _simple_glyph('old', 2, False)
    table = GL.table__g_l_y_f()
    table.glyphs = {'g': g}
    table.glyphOrder = ['g']
    new = [(V.real('x%d' % i, -3000, 3000), V.real('y%d' % i, -3000, 3000)) for i in range(2)]
    left, right = V.real('left', -3000, 3000), V.real('right', -3000, 3000)
    top, bottom = V.real('top', -3000, 3000), V.real('bottom', -3000, 3000)
    coord = GL.GlyphCoordinates(new + [(left, 0), (right, 0), (0, top), (0, bottom)])
    hm, vm = {}, ({} if vert else None)
    table._setCoordinates('g', coord, hm, vm)
    adv, lsb = hm['g']
    observe('hmtx', [adv, lsb])
    ob('advance-width', disj([conj([lt(right - left, -0.5), eq(adv, 0)]), conj([le(-0.5, right - left), _is_otround(adv, right - left)])]))
    ob('xMin', _is_rounded_min(g.xMin, [p[0] for p in new], 1))
    ob('left-side-bearing', _is_otround(lsb, g.xMin - left))
    if vert:
        vadv, tsb = vm['g']
        ob('advance-height', disj([conj([lt(top - bottom, -0.5), eq(vadv, 0)]), conj([le(-0.5, top - bottom), _is_otround(vadv, top - bottom)])]))
        ob('top-side-bearing', _is_otround(tsb, top - g.yMax))
