"""C08 kernels (layout merger side): what instantiateOTL's MutatorMerger and the master merger do to a PairPos lookup before they walk it."""
from sx.api import kernel, shim_all, V, ob, observe, eq, conj, disj, neg, assume, symbolic, le, lt
import fontTools.varLib.merger as MG
import fontTools.ttLib.tables.otTables as ot
from harness.C06_layout import _glyphpair, pair_lookup, same_pairs, _snapshot, GLYPHS
from harness.C02_roundtrip import Stub as _Font

F1_SHAPES = {
    # glyph-pair lists per subtable, in glyph order; a pair present in two subtables carries two different symbolic values: the FIRST one is the font's kerning
    'overlap': [[('a', 'b'), ('a', 'c'), ('b', 'c')], [('a', 'c'), ('a', 'd'), ('c', 'a')]],
    'same-pairs': [[('a', 'b'), ('a', 'c')], [('a', 'b'), ('a', 'c')]],
    'disjoint': [[('a', 'b')], [('b', 'a'), ('c', 'd')]],
    'three': [[('a', 'd')], [('a', 'c'), ('a', 'd')], [('a', 'b'), ('a', 'd'), ('b', 'a')]],
}


@kernel('C08', funcs=['varLib/merger.py:_Lookup_PairPosFormat1_subtables_flatten', 'varLib/merger.py:_PairSet_flatten', 'varLib/merger.py:_merge_GlyphOrders'],
        bounds='a kerning lookup of 2-3 glyph-pair (format 1) PairPos subtables (4 shapes: a pair listed in two subtables with different values, identical pair sets, disjoint '
               'sets, three subtables), symbolic advance adjustments: the single subtable they are flattened into before instancing / merging gives every glyph pair of the '
               '6-glyph universe the adjustment the OpenType lookup rule selects in the original list - for a pair listed twice, the FIRST record',
        quick=[dict(shape='overlap'), dict(shape='three')], thorough=[dict(shape=s) for s in F1_SHAPES])
def pairpos1_flatten_first_record_wins(shape):
    subs = [_glyphpair(pairs, 'adv', None, 'S%d' % i) for i, pairs in enumerate(F1_SHAPES[shape])]
    before = [_snapshot(st) for st in subs]
    flat = MG._Lookup_PairPosFormat1_subtables_flatten(subs, _Font(GLYPHS))
    observe('pairsets', [len(ps.PairValueRecord) for ps in flat.PairSet])
    ob('same-pairs', same_pairs(before, [flat], GLYPHS))
    ob('counts', flat.PairSetCount == len(flat.PairSet) == len(flat.Coverage.glyphs) and all(ps.PairValueCount == len(ps.PairValueRecord) for ps in flat.PairSet))
