"""C10 kernels: a built variable font reproduces its masters; axis maps normalise as the designspace says.

varLib.build as a whole reads designspace/UFO/TTF files and orchestrates every table: outside reach.  Decided here are the arithmetic and
look-up kernels the build relies on, on symbolic master values: master -> deltas -> (sub-)model supports -> evaluation at the master
locations, the ItemVariationStore round trip, the avar segment map the builder emits for a symbolic axis map, and the kerning value
look-up the layout merger uses to align masters.
"""
from collections import OrderedDict
from sx.api import kernel, shim_all, V, ob, observe, eq, conj, disj, neg, assume, symbolic, le, lt, ite, collide
import fontTools.varLib as VL
import fontTools.varLib.models as M
import fontTools.varLib.varStore as VS
import fontTools.varLib.builder as VB
import fontTools.varLib.merger as MG
import fontTools.designspaceLib as DS
import fontTools.misc.roundTools as RT
import fontTools.misc.fixedTools as FT
import fontTools.ttLib.tables.otTables as ot
from harness.C09_variation import spec_tent, _div
from harness.C06_layout import _classpair, _glyphpair, pair_lookup, _vals, GLYPHS

shim_all(VL, M, VS, VB, MG, DS, RT, FT)

LOCSETS = {
    '1d3': [{}, {'wght': 1.0}, {'wght': 0.5}],
    '1d4': [{}, {'wght': 1.0}, {'wght': 0.5}, {'wght': -1.0}],
    '2d4': [{}, {'wght': 1.0}, {'wdth': 1.0}, {'wght': 1.0, 'wdth': 1.0}],
    '2d5': [{}, {'wght': 1.0}, {'wdth': 1.0}, {'wght': 1.0, 'wdth': 1.0}, {'wght': 0.5, 'wdth': 0.5}],
    '1d4u': [{}, {'wght': 0.25}, {'wght': 0.75}, {'wght': 1.0}],
    '1d5': [{}, {'wght': 0.25}, {'wght': 0.5}, {'wght': 0.75}, {'wght': 1.0}],          # masters listed out of sorted order below via `order`
}


def evaluate(deltas, supports, loc):
    """sum_i scalar_i(loc) * delta_i with the reference tent model (independent of supportScalar)"""
    total = 0
    for d, sup in zip(deltas, supports):
        s = 1
        for ax, tent in sup.items():
            s = s * spec_tent(loc.get(ax, 0), tent)
        total = total + s * d
    return total


@kernel('C10', funcs=['varLib/models.py:VariationModel.__init__', 'varLib/models.py:VariationModel.getSubModel', 'varLib/models.py:VariationModel.getDeltasAndSupports',
                      'varLib/models.py:VariationModel.getDeltas', 'varLib/models.py:VariationModel.reorderMasters', 'varLib/models.py:VariationModel._computeMasterSupports',
                      'varLib/models.py:VariationModel._computeDeltaWeights'],
        bounds='master location sets on the lattice (1-2 axes, 3-5 masters), SYMBOLIC master values, sparse masters per the presence pattern (None entries '
               '-> sub-model); optionally the masters are re-ordered with reorderMasters after a first sparse query (as _add_CFF2 does after HVAR) and '
               'a second sparse query with the SAME presence flags in the new order follows: at every present master\'s location the deltas and supports '
               'returned evaluate exactly to that master\'s value',
        quick=[dict(locs='1d3', present='111', order=None), dict(locs='2d4', present='1101', order=None), dict(locs='1d4u', present='1011', order=[0, 2, 1, 3]),
               dict(locs='2d5', present='11101', order=[0, 2, 1, 3, 4])],
        thorough=[dict(locs=l, present=p, order=o) for l, p, o in (('1d3', '111', None), ('1d3', '110', None), ('1d4', '1101', None), ('2d4', '1101', None), ('2d4', '1011', [0, 2, 1, 3]),
                                                                    ('1d4u', '1011', [0, 2, 1, 3]), ('1d4u', '1101', [0, 2, 1, 3]), ('2d5', '11101', [0, 2, 1, 3, 4]), ('2d5', '10111', [0, 1, 2, 4, 3]))])
def sparse_masters_reproduced(locs, present, order):
    locations = [dict(l) for l in LOCSETS[locs]]
    n = len(locations)
    values = [V.real('m%d' % i, -2000, 2000) for i in range(n)]
    model = M.VariationModel(locations, ['wght', 'wdth'])

    def check(model, locations, values, present, label):
        items = [v if p == '1' else None for v, p in zip(values, present)]
        deltas, supports = model.getDeltasAndSupports(items)
        conds = []
        for loc, v, p in zip(locations, values, present):
            if p == '1':
                conds.append(eq(evaluate(deltas, supports, loc), v))
        ob(label + 'present-masters-reproduced', conj(conds))
        ob(label + 'one-delta-per-present-master', len(deltas) == present.count('1') == len(supports))
    check(model, locations, values, present, '')
    if order is not None:
        values2 = model.reorderMasters(values, order)
        locations2 = [locations[i] for i in order]
        ob('reordered-values', all(a is b for a, b in zip(values2, [values[i] for i in order])))
        check(model, locations2, values2, present, 'after-reorder:')
        check(model, locations2, values2, '1' * n, 'after-reorder-full:')


@kernel('C10', funcs=['varLib/varStore.py:OnlineVarStoreBuilder.storeMasters', 'varLib/varStore.py:OnlineVarStoreBuilder.storeDeltas', 'varLib/varStore.py:OnlineVarStoreBuilder.setModel',
                      'varLib/varStore.py:OnlineVarStoreBuilder.finish', 'varLib/varStore.py:VarStoreInstancer.__getitem__', 'varLib/models.py:VariationModel.getDeltas'],
        bounds='the chain the build uses for advances, metrics and anchors: master values (SYMBOLIC integers) -> VariationModel.getDeltas with rounding -> '
               'ItemVariationStore (OnlineVarStoreBuilder) -> VarStoreInstancer at each master location: default + variation is within 1/2 unit of that '
               'master, for 1-2 value rows sharing the store',
        quick=[dict(locs='1d3', rows=1), dict(locs='2d4', rows=1), dict(locs='1d4', rows=2), dict(locs='1d4u', rows=1), dict(locs='1d5', rows=1)],
        thorough=[dict(locs=l, rows=r) for l in ('1d3', '1d4', '2d4', '2d5', '1d4u', '1d5') for r in (1, 2)],
        max_paths=100000, collide=True)
def store_chain_reproduces_masters(locs, rows):
    from fontTools.ttLib.tables._f_v_a_r import Axis
    locations = [dict(l) for l in LOCSETS[locs]]
    tags = ['wght', 'wdth']
    model = M.VariationModel(locations, tags)
    sb = VS.OnlineVarStoreBuilder(tags)
    sb.setModel(model)
    stored = []
    for r in range(rows):
        vals = [V.int('r%d_m%d' % (r, i), -3000, 3000, bv=False) for i in range(len(locations))]
        base, idx = sb.storeMasters(vals)
        stored.append((vals, base, idx))
    store = sb.finish()
    axes = []
    for t in tags:
        a = Axis()
        a.axisTag = t
        axes.append(a)
    for r, (vals, base, idx) in enumerate(stored):
        conds = []
        for loc, v in zip(locations, vals):
            inst = VS.VarStoreInstancer(store, axes, loc)
            got = base + inst[idx]
            conds.append(conj([le(got - v, 0.5), le(v - got, 0.5)]))
        ob('row%d:masters-within-half-unit' % r, conj(conds))
        ob('row%d:default-exact' % r, eq(base, vals[0]))


@kernel('C10', funcs=['varLib/__init__.py:_add_avar', 'designspaceLib/__init__.py:AxisDescriptor.map_forward', 'varLib/models.py:normalizeValue', 'varLib/models.py:piecewiseLinearMap'],
        bounds='one axis whose user->design map has k in 3..5 symbolic knots (strictly increasing on both sides; minimum, default and maximum are knots): the '
               'avar segment map emitted by _add_avar, applied after the default normalisation of the USER value, sends every knot to the normalised '
               'DESIGN value the designspace specifies (so min/default/max land on -1/0/+1 and interior knots on their own normalised design value)',
        shims=['dict keyed by symbolic reals: collide mode'], quick=[dict(k=3, d=1), dict(k=4, d=0), dict(k=5, d=1), dict(k=5, d=2)],
        thorough=[dict(k=k, d=d) for k, d in ((3, 0), (3, 1), (3, 2), (4, 0), (4, 1), (4, 2), (4, 3), (5, 0), (5, 1), (5, 2), (5, 3), (5, 4))], collide=True, max_paths=100000)
def avar_maps_knots_as_designspace_says(k, d):
    us = [V.real('user%d' % i, 0, 1000) for i in range(k)]
    ds = [V.real('design%d' % i, 0, 1000) for i in range(k)]
    for a, b in zip(us, us[1:]):
        assume(lt(a, b))
    for a, b in zip(ds, ds[1:]):
        assume(lt(a, b))
    axis = DS.AxisDescriptor()
    axis.name, axis.tag = 'Weight', 'wght'
    axis.minimum, axis.default, axis.maximum = us[0], us[d], us[-1]
    axis.map = list(zip(us, ds))
    font = {}
    avar = VL._add_avar(font, OrderedDict([('Weight', axis)]), [], ['wght'])
    user_triple = (us[0], us[d], us[-1])
    design_triple = (ds[0], ds[d], ds[-1])
    if avar is None:
        # "no need for avar": only right when default normalisation alone already sends every knot where the designspace says
        ob('identity-map-only-when-knots-agree', conj([eq(M.normalizeValue(u, user_triple), M.normalizeValue(x, design_triple)) for u, x in zip(us, ds)]))
        return
    seg = avar.segments['wght']
    observe('n_segments', len(seg))
    conds = []
    for u, x in zip(us, ds):
        nu = M.normalizeValue(u, user_triple)
        conds.append(eq(M.piecewiseLinearMap(nu, seg), M.normalizeValue(x, design_triple)))
    ob('every-knot-lands-on-its-design-value', conj(conds))
    ob('required-entries', conj([eq(M.piecewiseLinearMap(t, seg), t) for t in (-1, 0, 1)]))


@kernel('C10', funcs=['varLib/merger.py:_Lookup_PairPos_get_effective_value_pair'],
        bounds='the kerning value look-up the layout merger uses to align masters: a lookup of 2-3 PairPos subtables (glyph pairs first, class kerning after; '
               'symbolic values) queried for every glyph pair of the 6-glyph universe returns the record the OpenType lookup rule selects (the first '
               'subtable covering the first glyph that HAS the pair; a glyph-pair subtable without the pair does not end the search)',
        quick=[dict(shape='gc'), dict(shape='ggc')], thorough=[dict(shape=s) for s in ('gc', 'ggc', 'cg', 'gg')])
def merger_pair_lookup_follows_the_lookup_rule(shape):
    subs = []
    for i, ch in enumerate(shape):
        if ch == 'g':
            pairs = [('a', 'b'), ('a', 'c'), ('b', 'c')] if i == 0 else [('a', 'd'), ('c', 'a')]
            subs.append(_glyphpair(pairs, 'adv', None, 'S%d' % i))
        else:
            subs.append(_classpair([['a', 'b', 'f'], ['c']], [[], ['d', 'e'], ['b']], 'adv', None, 'S%d' % i))
    conds = []
    for g1 in GLYPHS:
        for g2 in GLYPHS:
            rec = MG._Lookup_PairPos_get_effective_value_pair(None, subs, g1, g2)
            got = _vals(getattr(rec, 'Value1', None)) if rec is not None else (0, 0, 0, 0)
            want = pair_lookup(subs, g1, g2)[0]
            conds.append(conj([eq(x, y) for x, y in zip(got, want)]))
    ob('effective-pair-value', conj(conds))


@kernel('C10', funcs=['designspaceLib/__init__.py:SourceDescriptor.getFullDesignLocation', 'designspaceLib/__init__.py:AxisDescriptor.map_forward', 'varLib/models.py:piecewiseLinearMap'],
        bounds='a source that leaves out an axis whose user->design map (3 symbolic knots, the default a knot) moves the default: its full design location puts '
               'that axis at the DESIGN value of the axis default (map_forward(default)), and keeps explicit coordinates as given',
        shims=['dict keyed by symbolic reals: collide mode'], quick=[dict(d=0), dict(d=1)], thorough=[dict(d=d) for d in (0, 1, 2)], collide=True)
def omitted_axis_defaults_in_design_space(d):
    us = [V.real('user%d' % i, 0, 1000) for i in range(3)]
    ds = [V.real('design%d' % i, 0, 1000) for i in range(3)]
    for a, b in zip(us, us[1:]):
        assume(lt(a, b))
    for a, b in zip(ds, ds[1:]):
        assume(lt(a, b))
    wght = DS.AxisDescriptor()
    wght.name, wght.tag = 'Weight', 'wght'
    wght.minimum, wght.default, wght.maximum = us[0], us[d], us[-1]
    wght.map = list(zip(us, ds))
    wdth = DS.AxisDescriptor()
    wdth.name, wdth.tag = 'Width', 'wdth'
    wdth.minimum, wdth.default, wdth.maximum = 50, 100, 200
    doc = DS.DesignSpaceDocument()
    doc.axes = [wght, wdth]
    src = DS.SourceDescriptor()
    w = V.real('width', 50, 200)
    src.designLocation = {'Width': w}
    loc = src.getFullDesignLocation(doc)
    ob('omitted-axis-at-design-default', eq(loc['Weight'], ds[d]))
    ob('explicit-axis-kept', eq(loc['Width'], w))


# ------------------------------------------------------------------------------------------------ flattening class-kerning subtables before merging masters
from harness.C06_layout import same_pairs, _snapshot
from harness.C02_roundtrip import Stub as _Font

FLATTEN_SHAPES = {
    # (classes1, classes2) per subtable; coverages differ, so glyphs covered only by a LATER subtable must keep that subtable's values ("transparent" rows)
    'ab|ac': [([['a'], ['b']], [[], ['c'], ['d']]), ([['a'], ['c']], [[], ['d', 'e']])],
    'ab|cd': [([['a', 'b']], [[], ['c']]), ([['c'], ['d']], [[], ['a'], ['e']])],
    'a|abc': [([['a']], [[], ['b', 'c']]), ([['a', 'b'], ['c']], [[], ['b'], ['f']])],
    'three': [([['a']], [[], ['d']]), ([['b']], [[], ['d', 'e']]), ([['a', 'c']], [[], ['e'], ['f']])],
}


@kernel('C10', funcs=['varLib/merger.py:_Lookup_PairPosFormat2_subtables_flatten', 'varLib/merger.py:_PairPosFormat2_align_matrices', 'varLib/merger.py:_ClassDef_merge_classify',
                      'varLib/merger.py:_merge_GlyphOrders'],
        bounds='a master kerning lookup of 2-3 class-based PairPos subtables with DIFFERENT coverages and different second-glyph classes (4 shapes), symbolic advance '
               'adjustments: the single subtable the layout merger flattens them into before aligning masters gives, for every glyph pair of the 6-glyph universe, the '
               'adjustment the OpenType lookup rule selects in the original list (first subtable covering the first glyph) - in particular a first glyph that only a later '
               'subtable covers keeps that subtable values',
        quick=[dict(shape='ab|ac'), dict(shape='ab|cd')], thorough=[dict(shape=s) for s in FLATTEN_SHAPES])
def pairpos2_flatten_keeps_lookup(shape):
    subs = [_classpair(c1, c2, 'adv', None, 'S%d' % i) for i, (c1, c2) in enumerate(FLATTEN_SHAPES[shape])]
    order = {g: i for i, g in enumerate(GLYPHS)}
    for st in subs:
        st.Coverage.glyphs = sorted(st.Coverage.glyphs, key=order.get)
    before = [_snapshot(st) for st in subs]
    flat = MG._Lookup_PairPosFormat2_subtables_flatten(subs, _Font(GLYPHS))
    observe('classes', [len(flat.Class1Record), len(flat.Class1Record[0].Class2Record) if flat.Class1Record else 0])
    ob('same-pairs', same_pairs(before, [flat], GLYPHS))


# ------------------------------------------------------------------------------------------------ CFF2 region bookkeeping across sparse sub-models
import fontTools.varLib.cff as VCFF
from harness.common import Rec
shim_all(VCFF)


@kernel('C10', funcs=['varLib/cff.py:_add_new_vsindex', 'varLib/builder.py:buildVarData'],
        bounds='two or three (sub-)models registered one after the other, each with 1-2 one-axis supports whose (start, peak, end) are SYMBOLIC reals - so whether a later model '
               'reuses a region that an earlier one registered (and which one: the first, the last, none) is a solver fork: every VarData region index of every model points, '
               'in the shared region list, at a region equal to the support it stands for; the region list has no duplicates',
        quick=[dict(shape=[2, 1])], thorough=[dict(shape=s) for s in ([2, 1], [1, 2], [2, 2], [2, 1, 1])])
def cff2_region_indices_follow_supports(shape):
    def sup(tag):
        lo, pk, hi = V.real(tag + '_lo', -1, 1), V.real(tag + '_pk', -1, 1), V.real(tag + '_hi', -1, 1)
        assume(conj([le(lo, pk), le(pk, hi)]))
        return {'wght': (lo, pk, hi)}
    masterSupports, vsindex_dict, vsindex_by_key, varDataList = [], {}, {}, []
    models = []
    for mi, n in enumerate(shape):
        sups = [sup('m%ds%d' % (mi, i)) for i in range(n)]
        for a in range(n):
            for b in range(a + 1, n):
                assume(neg(conj([eq(x, y) for x, y in zip(sups[a]['wght'], sups[b]['wght'])])))      # the supports of ONE model are distinct regions
        model = Rec(supports=[{}] + sups)
        models.append(model)
        vs = VCFF._add_new_vsindex(model, ('key', mi), masterSupports, vsindex_dict, vsindex_by_key, varDataList)
        ob('vsindex-is-position', vs == mi and vsindex_by_key[('key', mi)] == mi and len(varDataList) == mi + 1)
    conds = []
    for model, vd in zip(models, varDataList):
        idx = list(vd.VarRegionIndex)
        conds.append(len(idx) == len(model.supports) - 1)
        for i, s in zip(idx, model.supports[1:]):
            conds.append(0 <= i < len(masterSupports) and conj([eq(x, y) for x, y in zip(masterSupports[i]['wght'], s['wght'])]))
    ob('region-index-points-at-its-support', conj(conds))
    ob('no-duplicate-regions', conj([neg(conj([eq(x, y) for x, y in zip(masterSupports[a]['wght'], masterSupports[b]['wght'])]))
                                     for a in range(len(masterSupports)) for b in range(a + 1, len(masterSupports))]))
