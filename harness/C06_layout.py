"""C06 kernels: serialising layout tables never changes what they do.

A shaper cannot be symbolic; the oracle is the OpenType lookup rule for pair positioning written inside this harness
(first subtable whose Coverage holds the first glyph and which has a record for the pair wins), evaluated on the object
graph before and after the serialisation step under check, for ALL values of the symbolic value records.
"""
from sx.api import instrument, kernel, shim_all, V, ob, observe, eq, conj, disj, neg, assume, symbolic, le, lt, tobytes, be_uint, ite
import fontTools.ttLib.tables.otTables as ot
import fontTools.ttLib.tables.otBase as OB
import fontTools.ttLib.tables.otConverters as OC
import fontTools.otlLib.builder as BU
import fontTools.otlLib.optimize.gpos as OG
from fontTools.ttLib.tables.otBase import OTLOffsetOverflowError
from harness.common import Rec, blist, s16, SymFont
from harness.C02_roundtrip import Stub

shim_all(ot, OB, OC, BU, OG)
instrument(OB)

VFIELDS = ['XPlacement', 'YPlacement', 'XAdvance', 'YAdvance']


def _vals(v):
    """ValueRecord -> tuple of the four design-unit fields (absent field = 0)"""
    if v is None:
        return (0, 0, 0, 0)
    return tuple(getattr(v, f, 0) for f in VFIELDS)


def pair_lookup(subtables, g1, g2):
    """OpenType GPOS lookup type 2, written from the spec: returns (value1 fields, value2 fields) for the glyph pair"""
    for st in subtables:
        st = getattr(st, 'ExtSubTable', st)
        cov = st.Coverage.glyphs
        if g1 not in cov:
            continue
        if st.Format == 1:
            ps = st.PairSet[cov.index(g1)]
            for pvr in ps.PairValueRecord:
                if pvr.SecondGlyph == g2:
                    return _vals(getattr(pvr, 'Value1', None)), _vals(getattr(pvr, 'Value2', None))
            continue          # no record for this second glyph: the lookup goes on to the next subtable
        c1 = st.ClassDef1.classDefs.get(g1, 0)
        c2 = st.ClassDef2.classDefs.get(g2, 0)
        rec = st.Class1Record[c1].Class2Record[c2]
        return _vals(getattr(rec, 'Value1', None)), _vals(getattr(rec, 'Value2', None))
    return (0, 0, 0, 0), (0, 0, 0, 0)


def same_pairs(before, after, glyphs):
    conds = []
    for g1 in glyphs:
        for g2 in glyphs:
            a = pair_lookup(before, g1, g2)
            b = pair_lookup(after, g1, g2)
            conds.append(conj([eq(x, y) for x, y in zip(a[0] + a[1], b[0] + b[1])]))
    return conj(conds)


GLYPHS = ['a', 'b', 'c', 'd', 'e', 'f']


def _value(name, fmt):
    """fmt: 'adv' (XAdvance only) / 'pla' (XPlacement + XAdvance) / None"""
    if fmt is None:
        return None
    v = OB.ValueRecord()
    v.XAdvance = V.int(name + '_xadv', -0x8000, 0x7FFF)
    if fmt == 'pla':
        v.XPlacement = V.int(name + '_xpla', -0x8000, 0x7FFF)
    return v


def _classpair(classes1, classes2, vf1, vf2, tag=''):
    """format-2 PairPos with the given class partitions (class 0 of ClassDef1 = covered glyphs not listed) and symbolic values"""
    st = ot.PairPos()
    st.Format = 2
    st.ValueFormat1 = {None: 0, 'adv': 4, 'pla': 5}[vf1]
    st.ValueFormat2 = {None: 0, 'adv': 4, 'pla': 5}[vf2]
    st.Coverage = ot.Coverage()
    st.Coverage.glyphs = [g for c in classes1 for g in c]
    st.ClassDef1 = ot.ClassDef()
    st.ClassDef1.classDefs = {g: i for i, c in enumerate(classes1) for g in c if i > 0}
    st.ClassDef2 = ot.ClassDef()
    st.ClassDef2.classDefs = {g: i for i, c in enumerate(classes2) for g in c if i > 0}
    st.Class1Record = []
    for i in range(len(classes1)):
        r1 = ot.Class1Record()
        r1.Class2Record = []
        for j in range(len(classes2)):
            r2 = ot.Class2Record()
            if j == 0:
                # class 0 of ClassDef2 = "every other glyph": zero adjustment, as every compiler emits
                r2.Value1 = OB.ValueRecord(st.ValueFormat1) if vf1 else None
                r2.Value2 = OB.ValueRecord(st.ValueFormat2) if vf2 else None
                for v in (r2.Value1, r2.Value2):
                    if v is not None:
                        for f in VFIELDS:
                            if hasattr(v, f) or True:
                                pass
            else:
                r2.Value1 = _value('%sv1_%d_%d' % (tag, i, j), vf1)
                r2.Value2 = _value('%sv2_%d_%d' % (tag, i, j), vf2)
            r1.Class2Record.append(r2)
        st.Class1Record.append(r1)
    st.Class1Count = len(classes1)
    st.Class2Count = len(classes2)
    return st


def _glyphpair(pairs, vf1, vf2, tag=''):
    st = ot.PairPos()
    st.Format = 1
    st.ValueFormat1 = {None: 0, 'adv': 4, 'pla': 5}[vf1]
    st.ValueFormat2 = {None: 0, 'adv': 4, 'pla': 5}[vf2]
    firsts = sorted({p[0] for p in pairs})
    st.Coverage = ot.Coverage()
    st.Coverage.glyphs = firsts
    st.PairSet = []
    for g in firsts:
        ps = ot.PairSet()
        ps.PairValueRecord = []
        for (a, b) in pairs:
            if a != g:
                continue
            pvr = ot.PairValueRecord()
            pvr.SecondGlyph = b
            pvr.Value1 = _value('%sp1_%s%s' % (tag, a, b), vf1)
            pvr.Value2 = _value('%sp2_%s%s' % (tag, a, b), vf2)
            ps.PairValueRecord.append(pvr)
        ps.PairValueCount = len(ps.PairValueRecord)
        st.PairSet.append(ps)
    st.PairSetCount = len(st.PairSet)
    return st


CLASSINGS = {
    # classes1 (index = class; class 0 first), classes2 (class 0 = everything else, empty list here)
    'c2x2': ([['a'], ['b']], [[], ['c'], ['d']]),
    'c3': ([['a'], ['b'], ['c', 'd']], [[], ['a', 'e']]),
    'c4': ([['a', 'f'], ['b'], ['c'], ['d', 'e']], [[], ['a'], ['b', 'c']]),
    'c5': ([['f'], ['a'], ['b'], ['c'], ['d', 'e']], [[], ['e'], ['f']]),
    'c4nozero': ([[], ['a'], ['b'], ['c', 'd']], [[], ['a', 'b']]),
}


# ------------------------------------------------------------------------------------------------ subtable splitting (overflow resolution)
@kernel('C06', funcs=['ttLib/tables/otTables.py:splitPairPos'],
        bounds='PairPos format 2 with the class partitions from the parameter (2-5 first-glyph classes incl. class 0, glyphs whose class equals the '
               'split point) and format 1 with 2-4 pair sets; value records symbolic (XAdvance / XPlacement+XAdvance over int16, either side): '
               'for EVERY glyph pair of the 6-glyph universe the lookup [old] equals the lookup [old\', new\'] after splitPairPos',
        quick=[dict(shape=s, vf1='adv', vf2=None) for s in ('c2x2', 'c3', 'c4', 'c5', 'c4nozero')] + [dict(shape='g3', vf1='adv', vf2='adv'), dict(shape='g4', vf1='pla', vf2=None)],
        thorough=[dict(shape=s, vf1=a, vf2=b) for s in ('c2x2', 'c3', 'c4', 'c5', 'c4nozero', 'g2', 'g3', 'g4') for a, b in (('adv', None), (None, 'adv'), ('pla', 'adv'))])
def split_pairpos_preserves_pairs(shape, vf1, vf2):
    if shape.startswith('c'):
        old = _classpair(*CLASSINGS[shape], vf1, vf2)
    else:
        n = int(shape[1:])
        pairs = [('a', 'b'), ('a', 'c'), ('b', 'a'), ('c', 'd'), ('d', 'a'), ('d', 'e')]
        pairs = [p for p in pairs if p[0] in GLYPHS[:n]]
        old = _glyphpair(pairs, vf1, vf2)
    import copy
    before = [copy.deepcopy(old)] if not symbolic() else [_snapshot(old)]
    new = ot.PairPos()
    ok = ot.splitPairPos(old, new, None)
    ob('split-done', ok)
    if not ok:
        return
    ob('both-halves-non-empty', len(old.Coverage.glyphs) > 0 and len(new.Coverage.glyphs) > 0)
    ob('same-pairs', same_pairs(before, [old, new], GLYPHS))
    # structural sanity the compiler relies on
    if old.Format == 2:
        ob('class-counts', old.Class1Count == len(old.Class1Record) and new.Class1Count == len(new.Class1Record))
        ob('classes-in-range', all(0 < v < old.Class1Count for v in old.ClassDef1.classDefs.values()) and all(0 < v < new.Class1Count for v in new.ClassDef1.classDefs.values()))


def _snapshot(st):
    """structure-only copy of a PairPos (value records shared: they are not mutated by the code under check)"""
    c = ot.PairPos()
    c.Format = st.Format
    c.Coverage = ot.Coverage()
    c.Coverage.glyphs = list(st.Coverage.glyphs)
    if st.Format == 1:
        c.PairSet = []
        for ps in st.PairSet:
            p = ot.PairSet()
            p.PairValueRecord = list(ps.PairValueRecord)
            c.PairSet.append(p)
    else:
        c.ClassDef1 = ot.ClassDef()
        c.ClassDef1.classDefs = dict(st.ClassDef1.classDefs)
        c.ClassDef2 = ot.ClassDef()
        c.ClassDef2.classDefs = dict(st.ClassDef2.classDefs)
        c.Class1Record = []
        for r in st.Class1Record:
            r1 = ot.Class1Record()
            r1.Class2Record = list(r.Class2Record)
            c.Class1Record.append(r1)
    return c


@kernel('C06', funcs=['ttLib/tables/otTables.py:fixSubTableOverFlows', 'ttLib/tables/otTables.py:splitPairPos'],
        bounds='a GPOS lookup of 2-3 PairPos subtables (format 1 and 2, plain and Extension-wrapped) with overlapping coverage and symbolic values; '
               'an overflow is reported for subtable k (every k): after fixSubTableOverFlows the lookup gives the same adjustment for every glyph '
               'pair (subtable ORDER is significant: the first covering subtable wins)',
        quick=[dict(k=0, ext=False), dict(k=1, ext=False), dict(k=0, ext=True)], thorough=[dict(k=k, ext=e) for k in (0, 1, 2) for e in (False, True)])
def fix_overflow_keeps_lookup(k, ext):
    A = _glyphpair([('a', 'b'), ('b', 'c'), ('c', 'd'), ('d', 'e')], 'adv', None, 'A')
    B = _classpair([['c', 'd', 'e'], ['a']], [[], ['d', 'e'], ['b']], 'adv', None, 'B')
    C = _glyphpair([('c', 'e'), ('d', 'e'), ('e', 'a')], 'adv', 'adv', 'C')
    subs = [A, B, C]
    before = [_snapshot(s) for s in subs]
    if ext:
        wrapped = []
        for s in subs:
            e = ot.ExtensionPos()
            e.Format = 1
            e.ExtSubTable = s
            wrapped.append(e)
        subs = wrapped
    for s in subs:
        s.DontShare = True          # first remedy (stop sharing) already used: the next one is splitting
    lookup = ot.Lookup()
    lookup.LookupType = 9 if ext else 2
    lookup.LookupFlag = 0
    lookup.SubTable = list(subs)
    lookup.SubTableCount = len(subs)
    table = ot.GPOS()
    table.LookupList = ot.LookupList()
    table.LookupList.Lookup = [lookup]
    font = {'GPOS': Rec(table=table)}
    rec = OB.OverflowErrorRecord(('GPOS', 0, k, None, None))
    ok = ot.fixSubTableOverFlows(font, rec)
    ob('resolved', ok)
    ob('one-more-subtable', len(lookup.SubTable) == 4 and lookup.SubTableCount == 4)
    ob('same-pairs', same_pairs(before, lookup.SubTable, GLYPHS))


# ------------------------------------------------------------------------------------------------ GPOS compaction
@kernel('C06', funcs=['otlLib/optimize/gpos.py:compact_class_pairs', 'otlLib/optimize/gpos.py:is_really_zero', 'otlLib/optimize/gpos.py:cluster_pairs_by_class2_coverage_custom_cost',
                      'otlLib/builder.py:buildPairPosClassesSubtable'],
        bounds='class-based PairPos (partitions from the parameter; in the -uncovered variant ClassDef1 also classifies a glyph outside the Coverage) with symbolic values on either / both sides (zero vs non-zero of every value is a '
               'solver fork, which is what the compaction keys on), compaction level 1-9: the compacted subtable list gives the same adjustment '
               'for every glyph pair',
        quick=[dict(shape='c2x2', vf1='adv', vf2=None, level=5), dict(shape='c2x2', vf1=None, vf2='adv', level=5), dict(shape='c3', vf1='adv', vf2='adv', level=9),
               dict(shape='c3-uncovered', vf1='adv', vf2=None, level=5)],
        thorough=[dict(shape=s, vf1=a, vf2=b, level=l) for s in ('c2x2', 'c3', 'c3-uncovered') for a, b in (('adv', None), (None, 'adv'), ('adv', 'adv'), ('pla', None)) for l in (1, 5, 9)],
        max_paths=100000)
def compaction_preserves_pairs(shape, vf1, vf2, level):
    if shape.endswith('-uncovered'):
        # ClassDef1 also classifies a glyph that the Coverage does not list (legal: the Coverage decides): it must stay unkerned
        st = _classpair(*CLASSINGS[shape[:-len('-uncovered')]], vf1, vf2)
        st.ClassDef1.classDefs['e'] = len(st.Class1Record) - 1
    else:
        st = _classpair(*CLASSINGS[shape], vf1, vf2)
    before = [_snapshot(st)]
    font = Stub(GLYPHS)
    out = OG.compact_class_pairs(font, level, st)
    observe('n_subtables', len(out))
    ob('same-pairs', same_pairs(before, out, GLYPHS))


# ------------------------------------------------------------------------------------------------ offset packing with symbolic sizes
class _Blob(OB.OTTableWriter):
    """leaf subtable whose SIZE is symbolic (its bytes are irrelevant to the offset arithmetic)"""

    def __init__(self, size):
        OB.OTTableWriter.__init__(self)
        self.size_ = size

    def getDataLength(self):
        return self.size_

    def getData(self):
        return b''


@kernel('C06', funcs=['ttLib/tables/otBase.py:OTTableWriter.getAllData', 'ttLib/tables/otBase.py:OTTableWriter.getData', 'ttLib/tables/otBase.py:OTTableWriter._gatherTables',
                      'ttLib/tables/otBase.py:OTTableWriter.getOverflowErrorRecord', 'ttLib/tables/otBase.py:packUShort', 'ttLib/tables/otBase.py:packULong', 'ttLib/tables/otBase.py:packUInt24'],
        bounds='a parent table with n in 1..3 child subtables whose byte sizes are symbolic in [0, 70000] (stand-ins for large subtables), offset '
               'widths from the parameter (2 / 3 / 4 bytes): either OTLOffsetOverflowError is raised - and then some 16-bit offset really exceeds '
               '65535 - or every written offset equals child.pos - parent.pos, fits its field, and the children are laid out after the parent '
               'without overlap',
        shims=['struct'], quick=[dict(n=1, w=[2]), dict(n=2, w=[2, 2]), dict(n=3, w=[2, 2, 2]), dict(n=2, w=[2, 4]), dict(n=2, w=[3, 2])],
        thorough=[dict(n=len(w), w=list(w)) for w in ([2], [4], [3], [2, 2], [2, 4], [4, 2], [3, 2], [2, 2, 2], [2, 4, 2], [2, 2, 3])])
def offsets_overflow_or_exact(n, w):
    sizes = [V.int('size%d' % i, 0, 70000) for i in range(n)]
    root = OB.OTTableWriter(tableTag='GPOS')
    root.name = 'Lookup'
    root.repeatIndex = 0
    root.writeUShort(1)
    kids = []
    for i in range(n):
        b = _Blob(sizes[i])
        b.name = 'SubTable'
        b.repeatIndex = i
        b.parent = root
        kids.append(b)
        root.writeSubTable(b, offsetSize=w[i])
    hdr = 2 + sum(w)
    try:
        data = root.getAllData(remove_duplicate=False)
    except OTLOffsetOverflowError as e:
        # an error instead of wrapped offsets - but only when an offset really does not fit
        over = disj([neg(le(k.pos - root.pos, 0xFFFF)) for k, ww in zip(kids, w) if ww == 2])
        ob('overflow-error-is-genuine', over)
        ob('overflow-record-names-a-subtable', e.value.SubTableIndex in range(n) if isinstance(e.value.SubTableIndex, int) else True)
        return
    d = blist(data)
    observe('header', tobytes(data))
    ob('header-length', len(d) == hdr)
    pos = 2
    conds = []
    for k, ww in zip(kids, w):
        conds.append(eq(be_uint(d[pos:pos + ww]), k.pos - root.pos))
        conds.append(le(k.pos - root.pos, (1 << (8 * ww)) - 1))
        pos += ww
    ob('offsets-exact-and-fit', conj(conds))
    # layout: parent first, children after it, back to back in some order, no overlap
    spans = [(k.pos, k.pos + s) for k, s in zip(kids, sizes)]
    ob('children-after-parent', conj([le(root.pos + hdr, a) for a, b in spans]))
    no_overlap = []
    for i in range(n):
        for j in range(i + 1, n):
            no_overlap.append(disj([le(spans[i][1], spans[j][0]), le(spans[j][1], spans[i][0])]))
    ob('children-do-not-overlap', conj(no_overlap))


# ------------------------------------------------------------------------------------------------ compile -> decompile with symbolic values
def _compile_gpos(subtables, font, lookup_type=2):
    from fontTools.ttLib import newTable
    t = newTable('GPOS')
    t.table = ot.GPOS()
    t.table.Version = 0x00010000
    t.table.ScriptList = ot.ScriptList()
    t.table.ScriptList.ScriptRecord = []
    t.table.FeatureList = ot.FeatureList()
    t.table.FeatureList.FeatureRecord = []
    t.table.LookupList = ot.LookupList()
    lk = ot.Lookup()
    lk.LookupType = lookup_type
    lk.LookupFlag = 0
    lk.SubTable = list(subtables)
    lk.SubTableCount = len(subtables)
    t.table.LookupList.Lookup = [lk]
    t.table.LookupList.LookupCount = 1
    data = t.compile(font)
    t2 = newTable('GPOS')
    t2.decompile(data, font)
    return data, t2


@kernel('C06', funcs=['ttLib/tables/otBase.py:BaseTTXConverter.compile', 'ttLib/tables/otBase.py:BaseTTXConverter.decompile', 'ttLib/tables/otBase.py:OTTableWriter._doneWriting',
                      'ttLib/tables/otBase.py:BaseTable.compile', 'ttLib/tables/otBase.py:BaseTable.decompile', 'ttLib/tables/otBase.py:ValueRecordFactory.readValueRecord',
                      'ttLib/tables/otBase.py:ValueRecordFactory.writeValueRecord', 'ttLib/tables/otTables.py:ClassDef.preWrite', 'ttLib/tables/otTables.py:Coverage.preWrite'],
        bounds='a whole GPOS table with one pair-positioning lookup of 1-2 subtables (format 1 / format 2 from the parameter) compiled with the real '
               'compiler (incl. subtable de-duplication: equal sub-records are shared iff their bytes are equal, an equality the solver forks on) '
               'and decompiled again: same adjustment for every glyph pair, for ALL int16 values',
        shims=['struct', 'array', 'bytes hashing in collide mode (sharing happens iff contents are equal)'],
        quick=[dict(kind='g'), dict(kind='c')], thorough=[dict(kind=k) for k in ('g', 'c', 'gc', 'gg')], collide=True, max_paths=100000)
def gpos_compile_decompile(kind):
    font = Stub(GLYPHS)
    font.lazy = False
    from fontTools.config import Config
    font.cfg = Config()
    font.getGlyphNameMany = lambda lst: [font.getGlyphName(g) for g in lst]
    font.getGlyphIDMany = lambda lst: [font.getGlyphID(g) for g in lst]
    subs = []
    for i, k in enumerate(kind):
        if k == 'g':
            subs.append(_glyphpair([('a', 'b'), ('a', 'c'), ('b', 'c')][:3 - i], 'adv', 'adv' if i else None, 'S%d' % i))
        else:
            subs.append(_classpair([['a', 'b'], ['c']], [[], ['d'], ['e']], 'adv', None, 'S%d' % i))
    before = [_snapshot(s) for s in subs]
    data, t2 = _compile_gpos(subs, font)
    observe('length', len(tobytes(data)))
    after = t2.table.LookupList.Lookup[0].SubTable
    ob('subtable-count', len(after) == len(subs))
    ob('same-pairs', same_pairs(before, after, GLYPHS))


# ------------------------------------------------------------------------------------------------ other subtable splitters
def _markbase(nclasses, nmarks, nbases, tag=''):
    st = ot.MarkBasePos()
    st.Format = 1
    st.MarkCoverage = ot.Coverage()
    st.MarkCoverage.glyphs = ['m%d' % i for i in range(nmarks)]
    st.BaseCoverage = ot.Coverage()
    st.BaseCoverage.glyphs = ['b%d' % i for i in range(nbases)]
    st.ClassCount = nclasses
    st.MarkArray = ot.MarkArray()
    st.MarkArray.MarkRecord = []
    for i in range(nmarks):
        mr = ot.MarkRecord()
        mr.Class = i % nclasses
        mr.MarkAnchor = ot.Anchor()
        mr.MarkAnchor.Format = 1
        mr.MarkAnchor.XCoordinate, mr.MarkAnchor.YCoordinate = V.int('%smk%d_x' % (tag, i), -1000, 1000), V.int('%smk%d_y' % (tag, i), -1000, 1000)
        st.MarkArray.MarkRecord.append(mr)
    st.MarkArray.MarkCount = nmarks
    st.BaseArray = ot.BaseArray()
    st.BaseArray.BaseRecord = []
    for b in range(nbases):
        br = ot.BaseRecord()
        br.BaseAnchor = []
        for c in range(nclasses):
            a = ot.Anchor()
            a.Format = 1
            a.XCoordinate, a.YCoordinate = V.int('%sbs%d_%d_x' % (tag, b, c), -1000, 1000), V.int('%sbs%d_%d_y' % (tag, b, c), -1000, 1000)
            br.BaseAnchor.append(a)
        st.BaseArray.BaseRecord.append(br)
    st.BaseArray.BaseCount = nbases
    return st


def mark_attach(subtables, mark, base):
    """GPOS lookup type 4 from the spec: (mark anchor, base anchor) of the first subtable covering both glyphs, else None"""
    for st in subtables:
        if mark in st.MarkCoverage.glyphs and base in st.BaseCoverage.glyphs:
            mr = st.MarkArray.MarkRecord[st.MarkCoverage.glyphs.index(mark)]
            br = st.BaseArray.BaseRecord[st.BaseCoverage.glyphs.index(base)]
            if mr.Class >= len(br.BaseAnchor) or br.BaseAnchor[mr.Class] is None:
                return None
            ba = br.BaseAnchor[mr.Class]
            return (mr.MarkAnchor.XCoordinate, mr.MarkAnchor.YCoordinate, ba.XCoordinate, ba.YCoordinate)
    return None


@kernel('C06', funcs=['ttLib/tables/otTables.py:splitMarkBasePos'],
        bounds='MarkBasePos with 2-5 mark classes (odd and even), 3-6 marks spread over the classes, 2 bases, every anchor coordinate symbolic: after '
               'splitMarkBasePos every (mark, base) pair attaches with the same two anchors as before, through the lookup [old\', new\']',
        quick=[dict(nc=2, nm=3), dict(nc=3, nm=4), dict(nc=5, nm=6)], thorough=[dict(nc=c, nm=m) for c in (2, 3, 4, 5) for m in (c, c + 1, 6)])
def split_markbase_preserves_attachment(nc, nm):
    st = _markbase(nc, nm, 2)
    marks, bases = list(st.MarkCoverage.glyphs), list(st.BaseCoverage.glyphs)
    want = {(m, b): mark_attach([st], m, b) for m in marks for b in bases}
    new = ot.MarkBasePos()
    ok = ot.splitMarkBasePos(st, new, None)
    ob('split-done', ok)
    if not ok:
        return
    conds = []
    for (m, b), w in want.items():
        got = mark_attach([st, new], m, b)
        conds.append(conj([eq(x, y) for x, y in zip(got, w)]) if got is not None and w is not None else (got is None and w is None))
    ob('same-attachment', conj(conds))
    ob('class-counts-consistent', st.ClassCount == max(len(r.BaseAnchor) for r in st.BaseArray.BaseRecord) and new.ClassCount == max(len(r.BaseAnchor) for r in new.BaseArray.BaseRecord)
       and all(r.Class < st.ClassCount for r in st.MarkArray.MarkRecord) and all(r.Class < new.ClassCount for r in new.MarkArray.MarkRecord))


@kernel('C06', funcs=['ttLib/tables/otTables.py:splitMultipleSubst', 'ttLib/tables/otTables.py:splitAlternateSubst', 'ttLib/tables/otTables.py:splitLigatureSubst',
                      'ttLib/tables/otTables.py:splitSinglePos'],
        bounds='GSUB Multiple / Alternate / Ligature substitution subtables of 4-5 entries and SinglePos format 2 with symbolic values, split for an overflow '
               'reported on the Coverage or on entry k (every k the splitters accept): the union of the two halves is the original mapping, no key in both',
        quick=[dict(kind=k, item=i) for k in ('multiple', 'alternate', 'ligature') for i in ('Coverage', 3)] + [dict(kind='singlepos', item='Coverage')],
        thorough=[dict(kind=k, item=i) for k in ('multiple', 'alternate', 'ligature') for i in ('Coverage', 2, 3, 4)] + [dict(kind='singlepos', item='Coverage')])
def split_substitutions_partition(kind, item):
    names = ['a', 'b', 'c', 'd', 'e']
    itemName = {'multiple': 'Sequence', 'alternate': 'AlternateSet', 'ligature': 'LigatureSet'}.get(kind)
    rec = Rec(itemName='Coverage' if item == 'Coverage' else itemName, itemIndex=None if item == 'Coverage' else item)
    if kind == 'multiple':
        st, new = ot.MultipleSubst(), ot.MultipleSubst()
        st.mapping = {n: [n + '.1', n + '.2'] for n in names}
        orig = dict(st.mapping)
        ok = ot.splitMultipleSubst(st, new, rec)
        a, b = st.mapping, new.mapping
    elif kind == 'alternate':
        st, new = ot.AlternateSubst(), ot.AlternateSubst()
        st.alternates = {n: [n + '.alt1', n + '.alt2'] for n in names}
        orig = dict(st.alternates)
        ok = ot.splitAlternateSubst(st, new, rec)
        a, b = st.alternates, new.alternates
    elif kind == 'ligature':
        st, new = ot.LigatureSubst(), ot.LigatureSubst()
        st.ligatures = {}
        for n in names:
            lig = ot.Ligature()
            lig.Component, lig.LigGlyph = ['x'], n + '_x'
            st.ligatures[n] = [lig]
        orig = dict(st.ligatures)
        ok = ot.splitLigatureSubst(st, new, rec)
        a, b = st.ligatures, new.ligatures
    else:
        st, new = ot.SinglePos(), ot.SinglePos()
        st.Format, st.ValueFormat = 2, 4
        st.Coverage = ot.Coverage()
        st.Coverage.glyphs = list(names)
        st.Value = []
        for n in names:
            v = OB.ValueRecord()
            v.XAdvance = V.int('adv_' + n, -1000, 1000)
            st.Value.append(v)
        orig = dict(zip(names, [v.XAdvance for v in st.Value]))
        ok = ot.splitSinglePos(st, new, rec)
        a = dict(zip(st.Coverage.glyphs, [v.XAdvance for v in st.Value]))
        b = dict(zip(new.Coverage.glyphs, [v.XAdvance for v in new.Value])) if ok else {}
        ob('arrays-parallel', len(st.Value) == len(st.Coverage.glyphs) and (not ok or len(new.Value) == len(new.Coverage.glyphs)))
    ob('split-done', bool(ok))
    ob('halves-disjoint', not (set(a) & set(b)))
    ob('union-is-the-original', set(a) | set(b) == set(orig))
    merged = dict(a)
    merged.update(b)
    ob('values-unchanged', conj([(eq(merged[k], v) if kind == 'singlepos' else merged[k] is v) for k, v in orig.items() if k in merged]))
    ob('both-halves-non-empty', len(a) > 0 and len(b) > 0)


@kernel('C06', funcs=['ttLib/tables/otTables.py:Coverage.preWrite', 'ttLib/tables/otTables.py:Coverage.postRead', 'ttLib/tables/otBase.py:BaseTable.compile'],
        bounds='SinglePos format 2 whose Coverage lists its 3-4 glyphs in an order that is NOT the glyph-id order (glyph ids are a symbolic permutation): '
               'compiled with the real compiler and decompiled again, every glyph still has its own value (coverage index order is preserved)',
        shims=['struct', 'array'], quick=[dict(n=3)], thorough=[dict(n=3), dict(n=4)], max_paths=100000, collide=True)
def unsorted_coverage_keeps_records(n):
    names = ['g%d' % i for i in range(n)]
    font = SymFont(n + 1)
    st = ot.SinglePos()
    st.Format, st.ValueFormat = 2, 4
    st.Coverage = ot.Coverage()
    st.Coverage.glyphs = list(names)
    st.Value = []
    want = {}
    for g in names:
        v = OB.ValueRecord()
        v.XAdvance = V.int('adv_' + g, -1000, 1000)
        st.Value.append(v)
        want[g] = v.XAdvance
    st.ValueCount = n
    from fontTools.config import Config
    font.cfg = Config()
    data, t2 = _compile_gpos([st], font, lookup_type=1)
    observe('length', len(tobytes(data)))
    st2 = t2.table.LookupList.Lookup[0].SubTable[0]
    got = {g: (st2.Value.XAdvance if st2.Format == 1 else st2.Value[i].XAdvance) for i, g in enumerate(st2.Coverage.glyphs)}
    ob('same-glyphs', sorted(got) == sorted(want))
    ob('values-follow-glyphs', conj([eq(got[g], want[g]) if g in got else False for g in want]))
