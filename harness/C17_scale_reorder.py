"""C17 kernels: rescaling the em scales every design-unit value once (within rounding) and touches nothing else; renumbering glyphs
keeps every per-glyph record attached to the same glyph NAME."""
from sx.api import kernel, shim_all, V, ob, observe, eq, conj, disj, neg, assume, symbolic, le, lt, ite, is_int
import fontTools.ttLib.scaleUpem as SU
import fontTools.ttLib.reorderGlyphs as RG
import fontTools.misc.visitor as VI
import fontTools.ttLib.ttVisitor as TV
import fontTools.misc.roundTools as RT
import fontTools.misc.fixedTools as FT
import fontTools.ttLib.tables._g_l_y_f as GL
import fontTools.ttLib.tables.otTables as ot
import fontTools.ttLib.tables.otBase as OB
import fontTools.ttLib.tables.TupleVariation as TVM
from fontTools.ttLib import TTFont, newTable
from harness.common import SymFont, Rec

shim_all(SU, RG, VI, TV, RT, FT, GL, ot, OB, TVM)


def I(name, lo=-2000, hi=2000):
    return V.int(name, lo, hi, bv=False)


class Ledger:
    """records every design-unit value put into the font together with a getter that reads it back after scaling"""

    def __init__(self):
        self.units = []        # (label, old value, getter)
        self.fixed = []        # (label, old value, getter): must not change

    def unit(self, label, value, getter):
        self.units.append((label, value, getter))
        return value

    def keep(self, label, value, getter):
        self.fixed.append((label, value, getter))
        return value


def _anchor(L, label, fmt=1):
    a = ot.Anchor()
    a.Format = fmt
    a.XCoordinate = L.unit(label + '.X', I(label + '_x'), lambda a=a: a.XCoordinate)
    a.YCoordinate = L.unit(label + '.Y', I(label + '_y'), lambda a=a: a.YCoordinate)
    if fmt == 2:
        a.AnchorPoint = L.keep(label + '.AnchorPoint', I(label + '_pt', 0, 100), lambda a=a: a.AnchorPoint)
    return a


def build_font(L, parts):
    font = TTFont(recalcTimestamp=False)
    names = ['.notdef', 'a', 'comp', 'space']
    font.setGlyphOrder(names)
    head = newTable('head')
    head.unitsPerEm = 1000
    for f in ('xMin', 'yMin', 'xMax', 'yMax'):
        setattr(head, f, L.unit('head.' + f, I('head_' + f), lambda f=f: getattr(head, f)))
    head.flags = L.keep('head.flags', I('head_flags', 0, 0xFFFF), lambda: head.flags)
    head.lowestRecPPEM = L.keep('head.lowestRecPPEM', I('head_ppem', 0, 100), lambda: head.lowestRecPPEM)
    head.indexToLocFormat = 0
    font['head'] = head
    if 'hhea' in parts:
        hhea = newTable('hhea')
        for f in ('ascent', 'descent', 'lineGap', 'advanceWidthMax', 'minLeftSideBearing', 'minRightSideBearing', 'xMaxExtent', 'caretOffset'):
            setattr(hhea, f, L.unit('hhea.' + f, I('hhea_' + f), lambda f=f: getattr(hhea, f)))
        for f in ('caretSlopeRise', 'caretSlopeRun', 'numberOfHMetrics'):
            setattr(hhea, f, L.keep('hhea.' + f, I('hhea_' + f, 0, 2000), lambda f=f: getattr(hhea, f)))
        font['hhea'] = hhea
        post = newTable('post')
        post.underlinePosition = L.unit('post.underlinePosition', I('post_up'), lambda: post.underlinePosition)
        post.underlineThickness = L.unit('post.underlineThickness', I('post_ut'), lambda: post.underlineThickness)
        post.italicAngle = L.keep('post.italicAngle', I('post_ia', -90, 90), lambda: post.italicAngle)
        post.isFixedPitch = L.keep('post.isFixedPitch', I('post_fp', 0, 1), lambda: post.isFixedPitch)
        font['post'] = post
        os2 = newTable('OS/2')
        for f in ('xAvgCharWidth', 'ySubscriptXSize', 'ySubscriptYOffset', 'yStrikeoutSize', 'yStrikeoutPosition', 'sTypoAscender', 'sTypoDescender', 'sTypoLineGap',
                  'usWinAscent', 'usWinDescent', 'sxHeight', 'sCapHeight'):
            setattr(os2, f, L.unit('OS/2.' + f, I('os2_' + f), lambda f=f: getattr(os2, f)))
        for f in ('usWeightClass', 'usWidthClass', 'fsType', 'fsSelection', 'usFirstCharIndex', 'usBreakChar'):
            setattr(os2, f, L.keep('OS/2.' + f, I('os2_' + f, 0, 1000), lambda f=f: getattr(os2, f)))
        font['OS/2'] = os2
    hmtx = newTable('hmtx')
    hmtx.metrics = {}
    for n in names:
        aw = L.unit('hmtx.%s.advance' % n, I('aw_' + n.strip('.'), 0, 3000), lambda n=n: hmtx.metrics[n][0])
        lsb = L.unit('hmtx.%s.lsb' % n, I('lsb_' + n.strip('.')), lambda n=n: hmtx.metrics[n][1])
        hmtx.metrics[n] = (aw, lsb)
    font['hmtx'] = hmtx
    glyf = newTable('glyf')
    glyf.glyphOrder = names
    glyf.glyphs = {}
    for n in ('.notdef', 'a'):
        g = GL.Glyph()
        g.numberOfContours = 1
        pts = []
        for i in range(2):
            x = L.unit('glyf.%s.pt%d.x' % (n, i), I('g%s_x%d' % (n.strip('.'), i)), lambda g=g, i=i: g.coordinates[i][0])
            y = L.unit('glyf.%s.pt%d.y' % (n, i), I('g%s_y%d' % (n.strip('.'), i)), lambda g=g, i=i: g.coordinates[i][1])
            pts.append((x, y))
        g.coordinates = GL.GlyphCoordinates(pts)
        g.endPtsOfContours = [1]
        g.flags = bytearray([1, 0])
        g.program = None
        for f in ('xMin', 'yMin', 'xMax', 'yMax'):
            setattr(g, f, L.unit('glyf.%s.%s' % (n, f), I('g%s_%s' % (n.strip('.'), f)), lambda g=g, f=f: getattr(g, f)))
        L.keep('glyf.%s.endPts' % n, 1, lambda g=g: g.endPtsOfContours[0])
        L.keep('glyf.%s.flags' % n, 1, lambda g=g: g.flags[0])
        glyf.glyphs[n] = g
    comp = GL.Glyph()
    comp.numberOfContours = -1
    c = GL.GlyphComponent()
    c.glyphName = 'a'
    c.flags = L.keep('glyf.comp.flags', 0x0204, lambda: c.flags)
    c.x = L.unit('glyf.comp.x', I('comp_x'), lambda: c.x)
    c.y = L.unit('glyf.comp.y', I('comp_y'), lambda: c.y)
    c.transform = [[0.5, 0], [0, 0.5]]
    L.keep('glyf.comp.transform', 0.5, lambda: c.transform[0][0])
    comp.components = [c]
    glyf.glyphs['comp'] = comp
    sp = GL.Glyph()
    sp.numberOfContours = 0
    glyf.glyphs['space'] = sp
    font['glyf'] = glyf
    if 'gvar' in parts:
        gvar = newTable('gvar')
        gvar.version, gvar.reserved = 1, 0
        gvar.variations = {}
        for n, npts in (('a', 2), ('space', 0), ('comp', 1)):
            coords = []
            for i in range(npts + 4):
                if i == 1 and npts == 2:
                    coords.append(None)
                    continue
                dx = L.unit('gvar.%s.d%d.x' % (n, i), I('gv_%s_dx%d' % (n, i), -500, 500), lambda n=n, i=i: gvar.variations[n][0].coordinates[i][0])
                dy = L.unit('gvar.%s.d%d.y' % (n, i), I('gv_%s_dy%d' % (n, i), -500, 500), lambda n=n, i=i: gvar.variations[n][0].coordinates[i][1])
                coords.append((dx, dy))
            gvar.variations[n] = [TVM.TupleVariation({'wght': (0.0, 1.0, 1.0)}, coords)]
            L.keep('gvar.%s.axes' % n, 1.0, lambda n=n: gvar.variations[n][0].axes['wght'][1])
        font['gvar'] = gvar
    if 'kern' in parts:
        kern = newTable('kern')
        kern.version = 0
        st = type('K', (), {})()
        from fontTools.ttLib.tables._k_e_r_n import KernTable_format_0
        st = KernTable_format_0()
        st.coverage = L.keep('kern.coverage', 1, lambda: st.coverage)
        st.kernTable = {}
        st.kernTable[('a', 'comp')] = L.unit('kern.a-comp', I('kern0'), lambda: st.kernTable[('a', 'comp')])
        st.kernTable[('comp', 'a')] = L.unit('kern.comp-a', I('kern1'), lambda: st.kernTable[('comp', 'a')])
        kern.kernTables = [st]
        font['kern'] = kern
    if 'GPOS' in parts:
        gpos = newTable('GPOS')
        t = ot.GPOS()
        t.Version = 0x00010000
        t.ScriptList = None
        t.FeatureList = None
        t.LookupList = ot.LookupList()
        # lookup 0: SinglePos format 2; lookup 1: MarkBasePos with a NULL anchor in class 0 of the second base
        sp2 = ot.SinglePos()
        sp2.Format = 2
        sp2.Coverage = ot.Coverage()
        sp2.Coverage.glyphs = ['a', 'comp']
        sp2.ValueFormat = L.keep('GPOS.SinglePos.ValueFormat', 5, lambda: sp2.ValueFormat)
        sp2.Value = []
        for i in range(2):
            v = OB.ValueRecord()
            v.XPlacement = L.unit('GPOS.SinglePos.Value%d.XPlacement' % i, I('sp_xp%d' % i), lambda v=v: v.XPlacement)
            v.XAdvance = L.unit('GPOS.SinglePos.Value%d.XAdvance' % i, I('sp_xa%d' % i), lambda v=v: v.XAdvance)
            sp2.Value.append(v)
        lk0 = ot.Lookup()
        lk0.LookupType, lk0.LookupFlag, lk0.SubTable = 1, L.keep('GPOS.Lookup0.LookupFlag', 8, lambda: lk0.LookupFlag), [sp2]
        mb = ot.MarkBasePos()
        mb.Format = 1
        mb.MarkCoverage = ot.Coverage()
        mb.MarkCoverage.glyphs = ['space']
        mb.BaseCoverage = ot.Coverage()
        mb.BaseCoverage.glyphs = ['a', 'comp']
        mb.ClassCount = 2
        mb.MarkArray = ot.MarkArray()
        mr = ot.MarkRecord()
        mr.Class = L.keep('GPOS.MarkRecord.Class', 1, lambda: mr.Class)
        mr.MarkAnchor = _anchor(L, 'GPOS.MarkAnchor', 2)
        mb.MarkArray.MarkRecord = [mr]
        mb.BaseArray = ot.BaseArray()
        br0 = ot.BaseRecord()
        br0.BaseAnchor = [_anchor(L, 'GPOS.Base0.c0'), _anchor(L, 'GPOS.Base0.c1')]
        br1 = ot.BaseRecord()
        br1.BaseAnchor = [None, _anchor(L, 'GPOS.Base1.c1')]
        mb.BaseArray.BaseRecord = [br0, br1]
        lk1 = ot.Lookup()
        lk1.LookupType, lk1.LookupFlag, lk1.SubTable = 4, 0, [mb]
        t.LookupList.Lookup = [lk0, lk1]
        gpos.table = t
        font['GPOS'] = gpos
    return font


FACTORS = {'x2': 2000, 'half': 500, '2048': 2048, '1234': 1234, '3/7': None}


@kernel('C17', funcs=['ttLib/scaleUpem.py:scale_upem', 'ttLib/scaleUpem.py:ScalerVisitor.scale', 'ttLib/scaleUpem.py:visit', 'misc/visitor.py:Visitor.visit', 'misc/visitor.py:Visitor.visitObject',
                      'misc/visitor.py:Visitor.visitList', 'misc/visitor.py:Visitor.visitDict', 'ttLib/ttVisitor.py:TTVisitor.visit', 'misc/roundTools.py:otRound'],
        bounds='in-memory font (head, hhea, post, OS/2, hmtx, glyf with 2 simple + 1 composite + 1 empty glyph, gvar incl. the phantom-point deltas of the '
               'EMPTY glyph and an untouched (None) point, kern, GPOS SinglePos + MarkBasePos whose second base has a NULL first anchor) with EVERY '
               'design-unit value a symbolic integer; upem 1000 -> {2000, 500, 2048, 1234}: every design-unit value f becomes an integer f\' with '
               '|f\' - k f| <= 1/2 (scaled exactly once), every other recorded attribute is unchanged',
        shims=['array("d") over reals', 'int/round/math.floor'],
        quick=[dict(parts=['hhea', 'kern'], new=2048), dict(parts=['gvar'], new=2000), dict(parts=['GPOS'], new=500), dict(parts=['gvar', 'GPOS'], new=1234)],
        thorough=[dict(parts=p, new=n) for p in (['hhea', 'kern'], ['gvar'], ['GPOS'], ['hhea', 'gvar', 'kern', 'GPOS']) for n in (2000, 500, 2048, 1234, 16384)],
        isint_false=True)
def scale_upem_fields(parts, new):
    from fractions import Fraction as Fr
    L = Ledger()
    font = build_font(L, parts)
    SU.scale_upem(font, new)
    k = Fr(new, 1000)
    ob('unitsPerEm', font['head'].unitsPerEm == new)
    bad = []
    conds = []
    for label, old, get in L.units:
        new_v = get()
        conds.append((label, conj([is_int(new_v), le(new_v - old * k, Fr(1, 2)), le(old * k - new_v, Fr(1, 2))])))
    # grouped by table so that a failure names the table
    groups = {}
    for label, c in conds:
        groups.setdefault(label.split('.')[0], []).append(c)
    for g, cs in sorted(groups.items()):
        ob('scaled-once:' + g, conj(cs))
    keep = {}
    for label, old, get in L.fixed:
        keep.setdefault(label.split('.')[0], []).append(eq(get(), old))
    for g, cs in sorted(keep.items()):
        ob('untouched:' + g, conj(cs))
    observe('n_unit_fields', len(L.units))


# ------------------------------------------------------------------------------------------------ glyph reordering
class ReFont(SymFont):
    """SymFont with the part of the TTFont API reorderGlyphs uses; the NEW glyph order is the symbolic permutation"""

    def keys(self):
        return list(dict.keys(self))

    def ensureDecompiled(self, recurse=None):
        pass

    def setGlyphOrder(self, order):
        self.new_order_given = list(order)


def _single_pos2(cov, tag):
    st = ot.SinglePos()
    st.Format = 2
    st.Coverage = ot.Coverage()
    st.Coverage.glyphs = list(cov)
    st.ValueFormat = 4
    st.Value = []
    for g in cov:
        v = OB.ValueRecord()
        v.XAdvance = V.int('%s_adv_%s' % (tag, g), -1000, 1000)
        st.Value.append(v)
    st.ValueCount = len(cov)
    return st


@kernel('C17', funcs=['ttLib/reorderGlyphs.py:reorderGlyphs', 'ttLib/reorderGlyphs.py:_sort_by_gid', 'ttLib/reorderGlyphs.py:ReorderCoverage.apply', 'ttLib/reorderGlyphs.py:ReorderList.apply',
                      'ttLib/reorderGlyphs.py:_bfs_base_table'],
        bounds='GPOS/GSUB/GDEF fragments (kind from the parameter) over n in 3..5 glyphs whose NEW glyph ids are a symbolic permutation (every '
               'permutation, incl. 3-cycles): after reorderGlyphs every coverage-indexed record (SinglePos values, PairPos pair sets and second-glyph '
               'records, mark/base anchors, ligature carets, alternate sets) is still attached to the same glyph NAME, and every Coverage is sorted '
               'by the new glyph ids',
        shims=['sorted() with symbolic keys forks on comparisons'],
        quick=[dict(kind=k, n=3) for k in ('singlepos', 'pairpos', 'markbase', 'gdef', 'altsubst')] + [dict(kind='singlepos', n=4)],
        thorough=[dict(kind=k, n=n) for k in ('singlepos', 'pairpos', 'markbase', 'gdef', 'altsubst') for n in (3, 4, 5)], max_paths=100000)
def reorder_keeps_records(kind, n):
    names = ['g%d' % i for i in range(n)] + ['z']
    font = ReFont(len(names), names=names)
    checks = []            # (label, callable -> SBool/bool) evaluated after the reorder
    sorted_checks = []

    def is_sorted(glyphs):
        return conj([lt(font.getGlyphID(a), font.getGlyphID(b)) for a, b in zip(glyphs, glyphs[1:])])
    if kind == 'singlepos':
        st = _single_pos2(names[:n], 'sp')
        want = {g: v.XAdvance for g, v in zip(st.Coverage.glyphs, st.Value)}
        table = ot.GPOS()
        checks.append(('values-follow-names', lambda: conj([eq(st.Value[st.Coverage.glyphs.index(g)].XAdvance, want[g]) for g in want])))
        sorted_checks.append(lambda: is_sorted(st.Coverage.glyphs))
    elif kind == 'pairpos':
        st = ot.PairPos()
        st.Format = 1
        st.ValueFormat1, st.ValueFormat2 = 4, 0
        st.Coverage = ot.Coverage()
        st.Coverage.glyphs = names[:n]
        st.PairSet = []
        want = {}
        for g in names[:n]:
            ps = ot.PairSet()
            ps.PairValueRecord = []
            for g2 in names[:n]:
                if g2 == g:
                    continue
                pvr = ot.PairValueRecord()
                pvr.SecondGlyph = g2
                pvr.Value1 = OB.ValueRecord()
                pvr.Value1.XAdvance = V.int('pp_%s_%s' % (g, g2), -1000, 1000)
                pvr.Value2 = None
                want[(g, g2)] = pvr.Value1.XAdvance
                ps.PairValueRecord.append(pvr)
            ps.PairValueCount = len(ps.PairValueRecord)
            st.PairSet.append(ps)
        st.PairSetCount = n
        table = ot.GPOS()

        def look(g, g2):
            ps = st.PairSet[st.Coverage.glyphs.index(g)]
            for pvr in ps.PairValueRecord:
                if pvr.SecondGlyph == g2:
                    return pvr.Value1.XAdvance
            return None
        checks.append(('pairs-follow-names', lambda: conj([eq(look(*k), v) if look(*k) is not None else False for k, v in want.items()])))
        sorted_checks.append(lambda: is_sorted(st.Coverage.glyphs))
        sorted_checks.append(lambda: conj([is_sorted([p.SecondGlyph for p in ps.PairValueRecord]) for ps in st.PairSet]))
    elif kind == 'markbase':
        st = ot.MarkBasePos()
        st.Format = 1
        st.MarkCoverage = ot.Coverage()
        st.MarkCoverage.glyphs = names[:2]
        st.BaseCoverage = ot.Coverage()
        st.BaseCoverage.glyphs = names[:n]
        st.ClassCount = 1
        st.MarkArray = ot.MarkArray()
        st.MarkArray.MarkRecord = []
        wantm, wantb = {}, {}
        for g in names[:2]:
            mr = ot.MarkRecord()
            mr.Class = 0
            mr.MarkAnchor = ot.Anchor()
            mr.MarkAnchor.Format = 1
            mr.MarkAnchor.XCoordinate = V.int('mk_%s' % g, -1000, 1000)
            mr.MarkAnchor.YCoordinate = 0
            wantm[g] = mr.MarkAnchor.XCoordinate
            st.MarkArray.MarkRecord.append(mr)
        st.BaseArray = ot.BaseArray()
        st.BaseArray.BaseRecord = []
        for g in names[:n]:
            br = ot.BaseRecord()
            a = ot.Anchor()
            a.Format = 1
            a.XCoordinate = V.int('bs_%s' % g, -1000, 1000)
            a.YCoordinate = 0
            br.BaseAnchor = [a]
            wantb[g] = a.XCoordinate
            st.BaseArray.BaseRecord.append(br)
        table = ot.GPOS()
        checks.append(('mark-anchors-follow-names', lambda: conj([eq(st.MarkArray.MarkRecord[st.MarkCoverage.glyphs.index(g)].MarkAnchor.XCoordinate, v) for g, v in wantm.items()])))
        checks.append(('base-anchors-follow-names', lambda: conj([eq(st.BaseArray.BaseRecord[st.BaseCoverage.glyphs.index(g)].BaseAnchor[0].XCoordinate, v) for g, v in wantb.items()])))
        sorted_checks.append(lambda: conj([is_sorted(st.MarkCoverage.glyphs), is_sorted(st.BaseCoverage.glyphs)]))
    elif kind == 'gdef':
        table = ot.GDEF()
        table.Version = 0x00010000
        lcl = ot.LigCaretList()
        lcl.Coverage = ot.Coverage()
        lcl.Coverage.glyphs = names[:n]
        lcl.LigGlyph = []
        want = {}
        for g in names[:n]:
            lg = ot.LigGlyph()
            cv = ot.CaretValue()
            cv.Format = 1
            cv.Coordinate = V.int('caret_%s' % g, -1000, 1000)
            lg.CaretValue = [cv]
            want[g] = cv.Coordinate
            lcl.LigGlyph.append(lg)
        lcl.LigGlyphCount = n
        table.LigCaretList = lcl
        table.GlyphClassDef = table.AttachList = table.MarkAttachClassDef = None
        st = None
        checks.append(('carets-follow-names', lambda: conj([eq(lcl.LigGlyph[lcl.Coverage.glyphs.index(g)].CaretValue[0].Coordinate, v) for g, v in want.items()])))
        sorted_checks.append(lambda: is_sorted(lcl.Coverage.glyphs))
    else:
        st = ot.ReverseChainSingleSubst()
        st.Format = 1
        st.Coverage = ot.Coverage()
        st.Coverage.glyphs = names[:n]
        st.BacktrackCoverage = []
        st.LookAheadCoverage = []
        st.Substitute = [names[(i + 1) % n] for i in range(n)]
        st.GlyphCount = n
        want = dict(zip(st.Coverage.glyphs, st.Substitute))
        table = ot.GSUB()
        checks.append(('substitutes-follow-names', lambda: all(st.Substitute[st.Coverage.glyphs.index(g)] == v for g, v in want.items())))
        sorted_checks.append(lambda: is_sorted(st.Coverage.glyphs))
    if st is not None:
        table.Version = 0x00010000
        table.ScriptList = table.FeatureList = None
        table.LookupList = ot.LookupList()
        lk = ot.Lookup()
        lk.LookupType, lk.LookupFlag, lk.SubTable = {'singlepos': 1, 'pairpos': 2, 'markbase': 4, 'altsubst': 8}[kind], 0, [st]
        table.LookupList.Lookup = [lk]
    tag = 'GDEF' if kind == 'gdef' else ('GSUB' if kind == 'altsubst' else 'GPOS')
    font[tag] = Rec(table=table)
    RG.reorderGlyphs(font, list(names))
    for label, f in checks:
        ob(label, f())
    for i, f in enumerate(sorted_checks):
        ob('coverage-sorted-by-new-gid:%d' % i, f())


@kernel('C17', funcs=['ttLib/scaleUpem.py:_cff_scale', 'ttLib/scaleUpem.py:ScalerVisitor.scale'],
        bounds='charstring / Private-dict operand lists as the CFF scaler sees them: plain numbers, mask bytes, and CFF2 blend lists [defaults..., deltas..., numBlends] '
               '(nested one level), every number symbolic: after _cff_scale every number (also inside blend lists) is scaled once within 1/2, the trailing '
               'numBlends of each blend list and the mask bytes are unchanged',
        quick=[dict(new=2000), dict(new=500)], thorough=[dict(new=n) for n in (2000, 500, 2048, 1234)])
def cff_operands_scaled(new):
    from fractions import Fraction as Fr
    k = Fr(new, 1000)
    vis = SU.ScalerVisitor(new / 1000)
    plain = [I('p%d' % i) for i in range(3)]
    blend = [I('b%d' % i) for i in range(4)] + [2]
    blend0 = list(blend)
    args = [plain[0], list(blend), plain[1], b'\xc0', plain[2]]
    inner = args[1]
    SU._cff_scale(vis, args)
    def scaled(new_v, old):
        return conj([is_int(new_v), le(new_v - old * k, Fr(1, 2)), le(old * k - new_v, Fr(1, 2))])
    ob('plain-operands-scaled', conj([scaled(args[0], plain[0]), scaled(args[2], plain[1]), scaled(args[4], plain[2])]))
    ob('blend-operands-scaled', args[1] is inner and conj([scaled(a, b) for a, b in zip(args[1][:-1], blend0[:-1])]))
    ob('numBlends-and-mask-kept', args[1][-1] == 2 and args[3] == b'\xc0' and len(args) == 5)
