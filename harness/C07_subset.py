"""C07 kernels: subsetting preserves what it keeps.

The retained glyph set is SYMBOLIC (one Bool per glyph of a small universe; the subsetter's set operations fork on membership), the
positioning values are symbolic integers.  Oracles written in this harness from the OpenType spec: the pair-positioning lookup rule
(shared with C06) and a small GSUB shaper (single, multiple, alternate, ligature, chaining-context format 3 with nested lookups).
"""
from sx.api import kernel, shim_all, V, ob, observe, eq, conj, disj, neg, assume, symbolic, le, lt, ite, sset
import fontTools.subset as SUB
import fontTools.subset.cff as SCFF
import fontTools.ttLib.tables.otTables as ot
import fontTools.ttLib.tables.otBase as OB
import fontTools.varLib.varStore as VS
import fontTools.varLib.models as M
import fontTools.misc.psCharStrings as PS
from harness.common import Rec
from harness.C06_layout import _classpair, _glyphpair, _snapshot, pair_lookup, CLASSINGS, GLYPHS

shim_all(SUB, VS, M)


class Sub:
    """the part of the Subsetter object the table methods use"""

    def __init__(self, glyphs):
        self.glyphs = glyphs
        self.options = SUB.Options()
        self.used_mark_sets = []
        self._doneLookups = {}


def retained(universe, name='keep', must=()):
    """symbolic subset, materialised as a Python set (each membership is a solver fork); `must` are always kept"""
    S = sset(name, [g for g in universe if g not in must])
    out = set(must)
    for g in universe:
        if g not in must and g in S:
            out.add(g)
    return out


def refs_of_pairpos(st):
    out = set(st.Coverage.glyphs)
    if st.Format == 1:
        for ps in st.PairSet:
            out.update(r.SecondGlyph for r in ps.PairValueRecord)
    else:
        out.update(st.ClassDef1.classDefs)
        out.update(st.ClassDef2.classDefs)
    return out


@kernel('C07', funcs=['subset/__init__.py:subset_glyphs', 'subset/__init__.py:subset', 'subset/__init__.py:remap', 'subset/__init__.py:intersect', 'subset/__init__.py:_list_subset'],
        bounds='PairPos format 1 (6 pairs) and format 2 (class partitions of C06) over a 6-glyph universe with symbolic int16 values; the retained set is '
               'an arbitrary (symbolic) subset: after subset_glyphs no removed glyph is referenced, and every pair of retained glyphs gets the same '
               'adjustment as before (a subtable reported empty must have had only zero adjustments for retained pairs)',
        quick=[dict(shape='g'), dict(shape='c3'), dict(shape='c4')], thorough=[dict(shape=s) for s in ('g', 'c2x2', 'c3', 'c4', 'c5', 'c4nozero')], max_paths=100000)
def pairpos_subset_keeps_pairs(shape):
    if shape == 'g':
        st = _glyphpair([('a', 'b'), ('a', 'c'), ('b', 'a'), ('c', 'd'), ('d', 'a'), ('d', 'e')], 'adv', None)
    else:
        st = _classpair(*CLASSINGS[shape], 'adv', None)
    before = [_snapshot(st)]
    keep = retained(GLYPHS)
    s = Sub(keep)
    alive = st.subset_glyphs(s)
    observe('alive', bool(alive))
    after = [st] if alive else []
    if alive:
        ob('no-removed-glyph-referenced', refs_of_pairpos(st) <= keep)
    conds = []
    for g1 in sorted(keep):
        for g2 in sorted(keep):
            a = pair_lookup(before, g1, g2)
            b = pair_lookup(after, g1, g2)
            conds.append(conj([eq(x, y) for x, y in zip(a[0] + a[1], b[0] + b[1])]))
    ob('retained-pairs-unchanged', conj(conds))


@kernel('C07', funcs=['subset/__init__.py:subset_glyphs', 'subset/__init__.py:subset', 'subset/__init__.py:remap'],
        bounds='SinglePos format 1 (one shared value) and format 2 (value per glyph), MarkBasePos (2 marks x 3 bases x 2 classes; also a sparse variant where two bases have an anchor for one class only) with symbolic values, '
               'symbolic retained set: values / anchors of retained glyphs unchanged, coverage-indexed arrays stay parallel to their coverage, no removed '
               'glyph referenced',
        quick=[dict(kind='sp1'), dict(kind='sp2'), dict(kind='markbase'), dict(kind='markbase-sparse')], max_paths=100000)
def gpos_records_follow_glyphs(kind):
    uni = ['a', 'b', 'c', 'd', 'm1', 'm2']
    keep = retained(uni)
    s = Sub(keep)
    if kind in ('sp1', 'sp2'):
        st = ot.SinglePos()
        st.Coverage = ot.Coverage()
        st.Coverage.glyphs = ['a', 'b', 'c', 'd']
        st.ValueFormat = 4
        if kind == 'sp1':
            st.Format = 1
            st.Value = OB.ValueRecord()
            st.Value.XAdvance = V.int('adv', -1000, 1000)
            want = {g: st.Value.XAdvance for g in st.Coverage.glyphs}
        else:
            st.Format = 2
            st.Value = []
            want = {}
            for g in st.Coverage.glyphs:
                v = OB.ValueRecord()
                v.XAdvance = V.int('adv_' + g, -1000, 1000)
                st.Value.append(v)
                want[g] = v.XAdvance
            st.ValueCount = 4
        alive = st.subset_glyphs(s)
        got = {}
        if alive:
            for i, g in enumerate(st.Coverage.glyphs):
                got[g] = st.Value.XAdvance if st.Format == 1 else st.Value[i].XAdvance
            ob('no-removed-glyph-referenced', set(st.Coverage.glyphs) <= keep)
            ob('arrays-parallel', st.Format == 1 or len(st.Value) == len(st.Coverage.glyphs) == st.ValueCount)
        ob('retained-values-unchanged', conj([eq(got[g], want[g]) if g in got else False for g in want if g in keep]))
        return
    st = ot.MarkBasePos()
    st.Format = 1
    st.MarkCoverage = ot.Coverage()
    st.MarkCoverage.glyphs = ['m1', 'm2']
    st.BaseCoverage = ot.Coverage()
    st.BaseCoverage.glyphs = ['a', 'b', 'c']
    st.ClassCount = 2
    st.MarkArray = ot.MarkArray()
    st.MarkArray.MarkRecord = []
    wantm, wantb = {}, {}
    for i, g in enumerate(st.MarkCoverage.glyphs):
        mr = ot.MarkRecord()
        mr.Class = i
        mr.MarkAnchor = ot.Anchor()
        mr.MarkAnchor.Format = 1
        mr.MarkAnchor.XCoordinate, mr.MarkAnchor.YCoordinate = V.int('mk_' + g, -1000, 1000), 0
        wantm[g] = (i, mr.MarkAnchor.XCoordinate)
        st.MarkArray.MarkRecord.append(mr)
    st.MarkArray.MarkCount = 2
    st.BaseArray = ot.BaseArray()
    st.BaseArray.BaseRecord = []
    for g in st.BaseCoverage.glyphs:
        br = ot.BaseRecord()
        br.BaseAnchor = []
        for c in range(2):
            if kind == 'markbase-sparse' and (g, c) in (('a', 0), ('b', 1)):
                br.BaseAnchor.append(None)          # base a attaches class-1 marks only, base b class-0 marks only
                continue
            a = ot.Anchor()
            a.Format = 1
            a.XCoordinate, a.YCoordinate = V.int('bs_%s_%d' % (g, c), -1000, 1000), 0
            br.BaseAnchor.append(a)
            wantb[(g, c)] = a.XCoordinate
        st.BaseArray.BaseRecord.append(br)
    st.BaseArray.BaseCount = 3
    alive = st.subset_glyphs(s)
    observe('alive', bool(alive))
    if not alive:
        ob('empty-only-if-no-attachment-kept', not any(m in keep and b in keep and (b, wantm[m][0]) in wantb for m in ('m1', 'm2') for b in ('a', 'b', 'c')))
        return
    ob('no-removed-glyph-referenced', set(st.MarkCoverage.glyphs) | set(st.BaseCoverage.glyphs) <= keep)
    ob('arrays-parallel', len(st.BaseArray.BaseRecord) == len(st.BaseCoverage.glyphs) == st.BaseArray.BaseCount
       and len(st.MarkArray.MarkRecord) == len(st.MarkCoverage.glyphs) == st.MarkArray.MarkCount
       and all(len(b.BaseAnchor) == st.ClassCount for b in st.BaseArray.BaseRecord))
    # attachment of (mark, base): the base anchor of the mark's class and the mark anchor, looked up through the (renumbered) classes;
    # a pair that had no anchor before must have none afterwards (a base may be dropped only when no retained mark attaches to it)
    conds = []
    for m in ('m1', 'm2'):
        for b in ('a', 'b', 'c'):
            if m in keep and b in keep:
                orig = wantb.get((b, wantm[m][0]))
                mi = st.MarkCoverage.glyphs.index(m)
                mr = st.MarkArray.MarkRecord[mi]
                if b not in st.BaseCoverage.glyphs:
                    conds.append(orig is None)
                    continue
                bi = st.BaseCoverage.glyphs.index(b)
                if bi >= len(st.BaseArray.BaseRecord) or mr.Class >= len(st.BaseArray.BaseRecord[bi].BaseAnchor):
                    conds.append(False)
                    continue
                ba = st.BaseArray.BaseRecord[bi].BaseAnchor[mr.Class]
                if orig is None or ba is None:
                    conds.append(orig is None and ba is None)
                else:
                    conds.append(conj([eq(mr.MarkAnchor.XCoordinate, wantm[m][1]), eq(ba.XCoordinate, orig)]))
    ob('retained-attachments-unchanged', conj(conds))


# ------------------------------------------------------------------------------------------------ anchors without hinting
@kernel('C07', funcs=['subset/__init__.py:prune_hints', 'subset/__init__.py:is_hinting'],
        bounds='Anchor formats 1-3 with symbolic coordinates; for format 3 every combination of {no device, hinting Device, VariationIndex} on X and Y: '
               'after prune_hints (the --no-hinting path) the coordinates are unchanged, hinting devices are gone, and every VARIATION device is still '
               'there with the anchor in format 3 (so variable mark positions survive)',
        quick=[dict(fmt=1, x='-', y='-'), dict(fmt=2, x='-', y='-')] + [dict(fmt=3, x=x, y=y) for x in ('-', 'h', 'v') for y in ('-', 'h', 'v')])
def anchor_prune_hints_keeps_variations(fmt, x, y):
    a = ot.Anchor()
    a.Format = fmt
    a.XCoordinate = V.int('x', -2000, 2000)
    a.YCoordinate = V.int('y', -2000, 2000)
    x0, y0 = a.XCoordinate, a.YCoordinate
    if fmt == 2:
        a.AnchorPoint = 3

    def dev(kind, tag):
        if kind == '-':
            return None
        d = ot.Device()
        if kind == 'h':
            d.StartSize, d.EndSize, d.DeltaFormat, d.DeltaValue = 9, 10, 1, [1, -1]
        else:
            d.StartSize, d.EndSize, d.DeltaFormat = V.int(tag + '_outer', 0, 10), V.int(tag + '_inner', 0, 10), 0x8000
        return d
    if fmt == 3:
        a.XDeviceTable, a.YDeviceTable = dev(x, 'xd'), dev(y, 'yd')
        keepx, keepy = a.XDeviceTable if x == 'v' else None, a.YDeviceTable if y == 'v' else None
    a.prune_hints()
    ob('coordinates-unchanged', conj([eq(a.XCoordinate, x0), eq(a.YCoordinate, y0)]))
    if fmt == 3:
        ob('variation-devices-kept', getattr(a, 'XDeviceTable', None) is keepx and getattr(a, 'YDeviceTable', None) is keepy)
        ob('format-3-iff-a-variation-device-remains', (a.Format == 3) == (keepx is not None or keepy is not None) and a.Format in (1, 3))
    else:
        ob('plain-format', a.Format == 1)


# ------------------------------------------------------------------------------------------------ GSUB closure vs a small shaper
def _apply_at(lookups, li, seq, i):
    """apply lookup li at position i of seq (list of glyph names); returns (new seq, next position) or None if it does not apply"""
    lk = lookups[li]
    for st in lk.SubTable:
        st = getattr(st, 'ExtSubTable', st)
        name = type(st).__name__
        g = seq[i]
        if name == 'SingleSubst':
            if g in st.mapping:
                return seq[:i] + [st.mapping[g]] + seq[i + 1:], i + 1
        elif name == 'MultipleSubst':
            if g in st.mapping:
                return seq[:i] + list(st.mapping[g]) + seq[i + 1:], i + len(st.mapping[g])
        elif name == 'AlternateSubst':
            if g in st.alternates:
                return seq[:i] + [('ALT', tuple(st.alternates[g]))] + seq[i + 1:], i + 1
        elif name == 'LigatureSubst':
            for lig in st.ligatures.get(g, []):
                comps = list(lig.Component)
                if seq[i + 1:i + 1 + len(comps)] == comps:
                    return seq[:i] + [lig.LigGlyph] + seq[i + 1 + len(comps):], i + 1
        elif name in ('ChainContextSubst', 'ContextSubst') and st.Format in (1, 3):
            if st.Format == 3:
                inp = st.InputCoverage if name == 'ChainContextSubst' else st.Coverage
                rules = [([c.glyphs for c in getattr(st, 'BacktrackCoverage', [])], [c.glyphs for c in inp], [c.glyphs for c in getattr(st, 'LookAheadCoverage', [])],
                          st.SubstLookupRecord)]
            else:
                if g not in st.Coverage.glyphs:
                    continue
                ci = st.Coverage.glyphs.index(g)
                rs = (st.ChainSubRuleSet if name == 'ChainContextSubst' else st.SubRuleSet)[ci]
                rules = []
                for r in ((rs.ChainSubRule if name == 'ChainContextSubst' else rs.SubRule) if rs else []):
                    rules.append(([[x] for x in getattr(r, 'Backtrack', [])], [[g]] + [[x] for x in r.Input], [[x] for x in getattr(r, 'LookAhead', [])], r.SubstLookupRecord))
            for back, inp, ahead, records in rules:
                n = len(inp)
                if i + n + len(ahead) > len(seq) or i - len(back) < 0:
                    continue
                if not all(seq[i + k] in inp[k] for k in range(n)):
                    continue
                if not all(seq[i - 1 - k] in back[k] for k in range(len(back))):
                    continue
                if not all(seq[i + n + k] in ahead[k] for k in range(len(ahead))):
                    continue
                cur = list(seq)
                end = i + n
                for rec in records:
                    pos = i + rec.SequenceIndex
                    if pos >= end:
                        continue
                    r = _apply_at(lookups, rec.LookupListIndex, cur, pos)
                    if r is not None:
                        end += len(r[0]) - len(cur)
                        cur = r[0]
                return cur, max(end, i + 1)
        else:
            raise AssertionError('shape outside the reference shaper: %s format %s' % (name, getattr(st, 'Format', None)))
    return None


def shape_all(gsub, start, maxlen=2):
    """every glyph that shows up when shaping any string of <= maxlen retained glyphs (all features on), incl. intermediate results"""
    lookups = gsub.LookupList.Lookup
    order = sorted({i for fr in gsub.FeatureList.FeatureRecord for i in fr.Feature.LookupListIndex})
    seen = set(start)
    import itertools
    for n in range(1, maxlen + 1):
        for s in itertools.product(sorted(start), repeat=n):
            seq = list(s)
            for li in order:
                i = 0
                while i < len(seq):
                    r = _apply_at(lookups, li, seq, i)
                    if r is None:
                        i += 1
                    else:
                        seq, i = r
                    for g in seq:
                        if isinstance(g, tuple):
                            seen.update(g[1])
                # alternates: any alternate may be chosen; continue with the first
                seq = [g[1][0] if isinstance(g, tuple) else g for g in seq]
                seen.update(seq)
    return seen


FEA = {
    # two rules call the same ligature lookup at the same position; in the second rule a single substitution at the NEXT position runs
    # first (the nested lookup records are reversed after compilation) and produces the glyph the ligature needs
    'ctx-reordered': ('f i j k f_i f_j x', """
        lookup SNG { sub k by i; } SNG;
        lookup LIG { sub f j by f_j; sub f i by f_i; } LIG;
        feature calt { sub f' lookup LIG j'; sub f' lookup LIG k' lookup SNG; } calt;
        """),
    'nested-context': ('f j k i f_i x', """
        lookup LIG { sub f i by f_i; } LIG;
        lookup SNG { sub k by i; } SNG;
        feature liga {
            sub f' lookup LIG j';
            sub f' k' lookup SNG;
            sub f' lookup LIG i';
        } liga;
        """),
    'chain-then-lig': ('f j k i f_i x', """
        lookup LIG { sub f i by f_i; } LIG;
        lookup SNG { sub k by i; } SNG;
        feature calt { sub f' j' lookup SNG; sub f' lookup LIG j'; sub f k' lookup SNG; sub f' lookup LIG i; } calt;
        """),
    'lig-chain': ('a b c a_b a_b_c x', """
        feature liga { sub a b by a_b; } liga;
        feature dlig { sub a_b c by a_b_c; } dlig;
        """),
    'single-chain': ('a b c d x', """
        feature ss01 { sub a by b; } ss01;
        feature ss02 { sub b by c; sub x by d; } ss02;
        """),
    'multi-alt': ('a b c d e x', """
        feature ccmp { sub a by b c; } ccmp;
        feature salt { sub c from [d e]; } salt;
        """),
}


def _gsub_font(glyphs, fea):
    from fontTools.fontBuilder import FontBuilder
    from fontTools.feaLib.builder import addOpenTypeFeaturesFromString
    fb = FontBuilder(1000, isTTF=True)
    order = ['.notdef'] + glyphs
    fb.setupGlyphOrder(order)
    fb.setupCharacterMap({})
    fb.setupHorizontalMetrics({g: (500, 0) for g in order})
    fb.setupHorizontalHeader()
    fb.setupNameTable({})
    fb.setupOS2()
    fb.setupPost()
    addOpenTypeFeaturesFromString(fb.font, fea)
    return fb.font


def _reverse_nested_records(gsub):
    for lk in gsub.LookupList.Lookup:
        for st in lk.SubTable:
            for rs in (getattr(st, 'SubRuleSet', None) or []) + (getattr(st, 'ChainSubRuleSet', None) or []):
                for r in (getattr(rs, 'SubRule', None) or []) + (getattr(rs, 'ChainSubRule', None) or []):
                    r.SubstLookupRecord = list(reversed(r.SubstLookupRecord))


_FONT_CACHE = {}


@kernel('C07', funcs=['subset/__init__.py:closure_glyphs', 'subset/__init__.py:collect_features', 'subset/__init__.py:collect_lookups', 'subset/__init__.py:intersect',
                      'subset/__init__.py:intersect_glyphs'],
        bounds='six GSUB rule sets compiled from feature text (nested contextual lookups that enable one another, ligature chains, single chains, '
               'multiple + alternate) over 5-6 glyphs; the initially retained set is an arbitrary (symbolic) subset: the GSUB glyph closure contains '
               'every glyph that the in-harness shaper produces for any string of up to 2 (quick) / 3 (thorough) retained glyphs',
        outside=['contextual format 2 (class based), reverse chaining, lookup flags / mark filtering, script / language selection (all features are on)'],
        quick=[dict(fea=k, maxlen=2) for k in FEA], thorough=[dict(fea=k, maxlen=3) for k in FEA], max_paths=50000)
def gsub_closure_covers_shaping(fea, maxlen):
    import copy
    glyphs, text = FEA[fea]
    glyphs = glyphs.split()
    if fea not in _FONT_CACHE:
        _FONT_CACHE[fea] = _gsub_font(glyphs, text)
        if fea.endswith('reordered'):
            _reverse_nested_records(_FONT_CACHE[fea]['GSUB'].table)
    font = _FONT_CACHE[fea]
    gsub = copy.deepcopy(font['GSUB'])
    keep0 = retained(glyphs, must=('x',))       # the subsetter never runs on an empty set (.notdef is always kept)
    s = Sub(set(keep0))
    gsub.closure_glyphs(s)
    need = shape_all(gsub.table, keep0, maxlen)
    observe('closure_size', len(s.glyphs))
    ob('closure-covers-every-shaping-result', need <= s.glyphs)
    ob('closure-keeps-the-request', keep0 <= s.glyphs)


# ------------------------------------------------------------------------------------------------ CFF accent composites (seac)
@kernel('C07', funcs=['subset/cff.py:_ClosureGlyphsT2Decompiler.op_endchar', 'misc/psCharStrings.py:SimpleT2Decompiler.execute'],
        bounds='a CFF charstring ending in the deprecated accent-composite form `adx ady bchar achar endchar`, with and without a leading width operand, '
               'adx/ady/width symbolic; base/accent codes from StandardEncoding: the closure visits both component glyphs',
        quick=[dict(width=False), dict(width=True)])
def cff_seac_closure(width):
    from fontTools.encodings.StandardEncoding import StandardEncoding
    adx, ady = V.int('adx', -500, 500), V.int('ady', -500, 500)
    prog = ([V.int('w', 0, 1000)] if width else []) + [adx, ady, 65, 194, 'endchar']
    cs = PS.T2CharString(program=prog, private=Rec(nominalWidthX=0, defaultWidthX=0))
    comps = set()
    d = SCFF._ClosureGlyphsT2Decompiler(comps, [], [])
    d.execute(cs)
    ob('base-and-accent-in-closure', {StandardEncoding[65], StandardEncoding[194]} <= comps)


# ------------------------------------------------------------------------------------------------ item variation store
@kernel('C07', funcs=['varLib/varStore.py:VarStore_subset_varidxes', 'varLib/varStore.py:VarStore_prune_regions', 'varLib/varStore.py:VarStoreInstancer.__getitem__',
                      'varLib/varStore.py:VarStoreInstancer._getScalar', 'varLib/builder.py:buildVarData'],
        bounds='ItemVariationStore of 2 regions x 2 VarData (3 and 2 rows) with symbolic non-zero byte-sized deltas (the width/zero classes of deltas belong to the C09 store kernels); the kept variation indices are an arbitrary '
               '(symbolic) subset of the 5; location symbolic on one axis: for every kept index the instancer value through the returned index map '
               'equals the value before subsetting',
        quick=[dict(retainFirstMap=False), dict(retainFirstMap=True)], max_paths=50000)
def varstore_subset_keeps_values(retainFirstMap):
    from fontTools.varLib import builder as VB
    from fontTools.ttLib.tables._f_v_a_r import Axis
    regs = VB.buildVarRegionList([{'wght': (0.0, 1.0, 1.0)}, {'wght': (0.0, 0.5, 1.0)}], ['wght'])
    d0 = [[V.int('d0_%d_%d' % (r, c), 1, 100) for c in range(2)] for r in range(3)]
    d1 = [[V.int('d1_%d_%d' % (r, c), -100, -1) for c in range(1)] for r in range(2)]
    vd0 = VB.buildVarData([0, 1], d0, optimize=False)
    vd1 = VB.buildVarData([1], d1, optimize=False)
    store = VB.buildVarStore(regs, [vd0, vd1])
    ax = Axis()
    ax.axisTag = 'wght'
    v = V.real('loc', 0, 1)
    all_idx = [(0 << 16) + r for r in range(3)] + [(1 << 16) + r for r in range(2)]
    before = {}
    inst = VS.VarStoreInstancer(store, [ax], {'wght': v})
    for i in all_idx:
        before[i] = inst[i]
    keep = retained(all_idx, 'keepidx')
    if not keep:
        return
    mapping = store.subset_varidxes(keep, retainFirstMap=retainFirstMap)
    store.prune_regions()
    inst2 = VS.VarStoreInstancer(store, [ax], {'wght': v})
    conds = []
    for i in sorted(keep):
        conds.append(eq(inst2[mapping[i]], before[i]) if i in mapping else False)
    ob('kept-values-unchanged', conj(conds))
    ob('map-is-injective', len({mapping[i] for i in keep}) == len(keep))
