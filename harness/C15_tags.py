"""C15 kernels: table tag <-> identifier / XML element name codecs on symbolic 4-character tags (string code: instrumented source, sx.strings)."""
from sx.api import instrument, kernel, shim_all, shim, V, ob, observe, eq, conj, disj, neg, assume, symbolic
import fontTools.ttLib.ttFont as TF

shim_all(TF)
instrument(TF, '_escapechar', 'tagToIdentifier', 'identifierToTag', 'tagToXML', 'xmlToTag', strings=True, membership=True, re=True)
if symbolic():
    from sx.strings import SStr as _SStr
    from sx.sym import SInt as _SInt
    from sx.api import ite as _ite
    from sx import shims as _sh
    _RealTag, _real_byteord = TF.Tag, TF.byteord

    def _hexdigit(d):
        return _ite(d < 10, d + 48, d + 87)

    def _hex(x):
        """hex() of a symbolic byte value 16..255: '0x' + two lower-case hex digits, computed symbolically (no enumeration)"""
        if isinstance(x, _SInt):
            if bool(x < 16):
                return _SStr(['0', 'x', _hexdigit(x)])
            return _SStr(['0', 'x', _hexdigit(x >> 4), _hexdigit(x & 15)])
        return hex(x)

    def _hexval(c):
        c = c if isinstance(c, _SInt) else ord(c)
        return _ite(c <= 57, c - 48, _ite(c <= 70, c - 55, c - 87))

    def _int(x=0, *a):
        if isinstance(x, _SStr) and a == (16,):
            v = 0
            for c in x.c:
                v = v * 16 + _hexval(c)
            return v
        return _sh.int_shim(x, *a)

    def _chr(v):
        return _SStr([v]) if isinstance(v, _SInt) else chr(v)
    shim(TF, Tag=lambda x: x if isinstance(x, _SStr) else _RealTag(x), byteord=lambda c: c.codepoints()[0] if isinstance(c, _SStr) else _real_byteord(c),
         hex=_hex, int=_int, chr=_chr)


def _cps(s):
    return [ord(c) for c in s] if isinstance(s, str) else s.codepoints()


def _same(a, b):
    ca, cb = _cps(a), _cps(b)
    return conj([eq(x, y) for x, y in zip(ca, cb)]) if len(ca) == len(cb) else False


@kernel('C15', funcs=['ttLib/ttFont.py:tagToIdentifier', 'ttLib/ttFont.py:identifierToTag', 'ttLib/ttFont.py:_escapechar', 'ttLib/ttFont.py:tagToXML', 'ttLib/ttFont.py:xmlToTag'],
        bounds='ALL table tags of 4 printable-ASCII characters (every character symbolic; upper / lower / digit / other / space, incl. leading and trailing '
               'spaces, are solver forks): identifierToTag(tagToIdentifier(tag)) == tag and xmlToTag(tagToXML(tag)) == tag; identifiers consist of '
               'identifier characters only',
        shims=['symbolic strings (sx.strings)', 're.match on character classes (shim)', 'Tag() passes symbolic strings through'],
        quick=[dict(which='identifier'), dict(which='xml')], max_paths=400000, conc_cap=80)
def tag_codecs_roundtrip(which):
    tag = V.str('tag', 4)
    if which == 'identifier':
        ident = TF.tagToIdentifier(tag)
        back = TF.identifierToTag(ident)
        ob('identifier-characters-only', conj([disj([conj([48 <= c, c <= 57]) if False else ((c >= 48) & (c <= 57)) if not isinstance(c, int) else 48 <= c <= 57,
                                                      ((c >= 65) & (c <= 90)) if not isinstance(c, int) else 65 <= c <= 90,
                                                      ((c >= 97) & (c <= 122)) if not isinstance(c, int) else 97 <= c <= 122,
                                                      eq(c, 95)]) for c in _cps(ident)]))
    else:
        back = TF.xmlToTag(TF.tagToXML(tag))
    ob('roundtrip', _same(back, tag))
