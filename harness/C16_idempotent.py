"""C16 kernels: saving does not disturb the font; a second save yields identical bytes; time enters only through the clock.

Hash-seed / process / lazy-mode independence is a property of interpreter-level scheduling across processes: outside the technique.
Decided here, for all symbolic contents: compile is idempotent on the table codecs, compile leaves the object's content unchanged,
TTFont.save / TTCollection.save leave the font's state (flavorData, recalcTimestamp flags) as they found it, and with the clock
replaced by a stub returning an arbitrary instant the saved timestamp is that instant.
"""
import sys as _sys
from sx.api import instrument, kernel, shim_all, V, ob, observe, eq, conj, disj, neg, assume, symbolic, le, lt, ite, tobytes, be_uint
import fontTools.ttLib.sfnt as SF
import fontTools.ttLib.ttFont as TF
import fontTools.ttLib.ttCollection as TC
import fontTools.ttLib.tables.DefaultTable as DT
import fontTools.ttLib.tables._h_e_a_d as HD
import fontTools.ttLib.tables._g_l_y_f as GL
import fontTools.ttLib.tables._h_m_t_x as HM
import fontTools.ttLib.tables._k_e_r_n as KE
import fontTools.ttLib.tables._l_o_c_a as LO
import fontTools.ttLib.tables.otTables as ot
import fontTools.ttLib.tables.otBase as OB
import fontTools.ttLib.tables.otConverters as OC
import fontTools.ttLib.tables.TupleVariation as TVM
import fontTools.misc.sstruct as SS
import fontTools.misc.fixedTools as FT
from fontTools.ttLib import TTFont, newTable
from harness.common import Rec, blist
from harness.C02_roundtrip import Stub, _mk_glyph
from harness.C06_layout import _classpair, _glyphpair, GLYPHS
from harness.C01_recompile import _Zlib, new_file, _build_sfnt

shim_all(SF, TF, TC, DT, HD, GL, HM, KE, LO, ot, OB, OC, TVM, SS, FT)
instrument(GL.Glyph)
instrument(OB)
instrument(TVM)


def same_bytes(a, b):
    a, b = tobytes(a), tobytes(b)
    return eq(a, b) if len(a) == len(b) else False


# ------------------------------------------------------------------------------------------------ compile twice
@kernel('C16', funcs=['ttLib/tables/_h_m_t_x.py:table__h_m_t_x.compile', 'ttLib/tables/_g_l_y_f.py:Glyph.compileCoordinates', 'ttLib/tables/_g_l_y_f.py:GlyphComponent.compile',
                      'ttLib/tables/_k_e_r_n.py:KernTable_format_0.compile', 'ttLib/tables/_l_o_c_a.py:table__l_o_c_a.compile', 'ttLib/tables/otBase.py:BaseTable.compile',
                      'ttLib/tables/otTables.py:Coverage.preWrite', 'ttLib/tables/otTables.py:ClassDef.preWrite', 'ttLib/tables/TupleVariation.py:compileTupleVariationStore'],
        bounds='object kinds hmtx (3 glyphs), simple glyph (2 integer points; 1 point with fractional quarter-unit coordinates), component, kern format 0 (2 pairs), loca (2 glyphs), GPOS PairPos format 1 and 2 '
               '(whole-table compile incl. Coverage/ClassDef preWrite), gvar tuple store; contents symbolic as in the C02/C06 kernels: compiling twice '
               'gives identical bytes and the object\'s content (a snapshot of its fields, symbolic terms compared by the solver) is what it was',
        shims=['struct', 'array', 'bytes'], quick=[dict(kind=k) for k in ('hmtx', 'glyph', 'glyph-frac', 'component', 'kern', 'loca', 'pairpos1', 'pairpos2', 'tuples')], collide=True, max_paths=100000)
def compile_twice_identical(kind):
    if kind == 'hmtx':
        names = ['g0', 'g1', 'g2']
        t = HM.table__h_m_t_x()
        t.metrics = {n: (V.int('aw%d' % i, 0, 0xFFFF), V.int('lsb%d' % i, -0x8000, 0x7FFF)) for i, n in enumerate(names)}
        font = Stub(names, hhea=Rec(numberOfHMetrics=0), maxp=Rec(numGlyphs=3))
        snap = dict(t.metrics)
        c = lambda: t.compile(font)
        state = lambda: conj([conj([eq(t.metrics[n][0], snap[n][0]), eq(t.metrics[n][1], snap[n][1])]) for n in names])
    elif kind in ('glyph', 'glyph-frac'):
        if kind == 'glyph':
            npts = 2
            pts = [(V.int('x%d' % i, -1200, 1200, bv=False), V.int('y%d' % i, -1200, 1200, bv=False)) for i in range(npts)]
        else:
            npts = 1      # quarter units: fractional coordinates, as a font holds them after instancing or scaling
            pts = [(V.int('x0', -4800, 4800, bv=False) / 4, V.int('y0', -4800, 4800, bv=False) / 4)]
        g = _mk_glyph(npts)
        g.coordinates = GL.GlyphCoordinates(pts)
        fl = [1, 0][:npts]
        g.flags = GL.bytearray(fl) if symbolic() else bytearray(fl)
        c = lambda: g.compileCoordinates()
        state = lambda: conj([conj([eq(g.coordinates[i][0], pts[i][0]), eq(g.coordinates[i][1], pts[i][1])]) for i in range(npts)] + [list(g.flags) == fl, g.endPtsOfContours == [npts - 1]])
    elif kind == 'component':
        comp = GL.GlyphComponent()
        comp.glyphName = 'a'
        comp.flags = V.int('flags', 0, 0xFFFF)
        comp.x, comp.y = V.int('x', -0x8000, 0x7FFF), V.int('y', -0x8000, 0x7FFF)
        f0, x0, y0 = comp.flags, comp.x, comp.y
        gt = Rec(getGlyphID=lambda n: 3)
        c = lambda: comp.compile(True, False, gt)
        state = lambda: conj([eq(comp.flags, f0), eq(comp.x, x0), eq(comp.y, y0), comp.glyphName == 'a', not hasattr(comp, 'transform')])
    elif kind == 'kern':
        st = KE.KernTable_format_0(False)
        st.coverage, st.tupleIndex = 1, None
        st.kernTable = {('a', 'b'): V.int('v0', -0x8000, 0x7FFF), ('c', 'a'): V.int('v1', -0x8000, 0x7FFF)}
        snap = dict(st.kernTable)
        font = Stub(['a', 'b', 'c', 'd'])
        c = lambda: st.compile(font)
        state = lambda: conj([eq(st.kernTable[k], v) for k, v in snap.items()] + [sorted(st.kernTable) == sorted(snap), st.coverage == 1])
    elif kind == 'loca':
        offs = [0, V.int('o1', 0, 1 << 24), V.int('o2', 0, 1 << 24)]
        assume(le(offs[1], offs[2]))
        t = LO.table__l_o_c_a()
        t.set(offs)
        font = Stub(['g0', 'g1'], head=Rec(indexToLocFormat=None), maxp=Rec(numGlyphs=2))
        c = lambda: t.compile(font)
        state = lambda: conj([eq(t.locations[i], offs[i]) for i in range(3)])
    elif kind in ('pairpos1', 'pairpos2'):
        from harness.C06_layout import _snapshot, pair_lookup
        from fontTools.config import Config
        st = _glyphpair([('a', 'b'), ('a', 'c'), ('b', 'c')], 'adv', None) if kind == 'pairpos1' else _classpair([['a', 'b'], ['c']], [[], ['d'], ['e']], 'adv', None)
        before = [_snapshot(st)]
        font = Stub(GLYPHS)
        font.lazy, font.cfg = False, Config()
        font.getGlyphNameMany = lambda lst: [font.getGlyphName(g) for g in lst]
        font.getGlyphIDMany = lambda lst: [font.getGlyphID(g) for g in lst]
        t = newTable('GPOS')
        t.table = ot.GPOS()
        t.table.Version = 0x00010000
        t.table.ScriptList, t.table.FeatureList = ot.ScriptList(), ot.FeatureList()
        t.table.ScriptList.ScriptRecord, t.table.FeatureList.FeatureRecord = [], []
        t.table.LookupList = ot.LookupList()
        lk = ot.Lookup()
        lk.LookupType, lk.LookupFlag, lk.SubTable = 2, 0, [st]
        t.table.LookupList.Lookup = [lk]
        c = lambda: t.compile(font)

        def state():
            conds = []
            for g1 in GLYPHS:
                for g2 in GLYPHS:
                    a, b = pair_lookup(before, g1, g2), pair_lookup([st], g1, g2)
                    conds.append(conj([eq(x, y) for x, y in zip(a[0], b[0])]))
            return conj(conds + [st.Coverage.glyphs == before[0].Coverage.glyphs, t.table.LookupList.Lookup[0].SubTable[0] is st])
    else:
        axisTags = ['wght']
        pk = V.int('peak', -16384, 16384, bv=False)
        assume(neg(eq(pk, 0)))
        coords = [(V.int('dx0', -0x8000, 0x7FFF), V.int('dy0', -0x8000, 0x7FFF)), None, (V.int('dx2', -0x8000, 0x7FFF), V.int('dy2', -0x8000, 0x7FFF))]
        tv = TVM.TupleVariation({'wght': (ite(pk < 0, pk, 0) / 16384, pk / 16384, ite(pk > 0, pk, 0) / 16384)}, list(coords))
        snap_axes = dict(tv.axes)

        def c():
            n, tuples, data = TVM.compileTupleVariationStore([tv], 3, axisTags, {})
            return tobytes(tuples) + tobytes(data)
        state = lambda: conj([conj([eq(p[0], q[0]), eq(p[1], q[1])]) if p is not None else (q is None) for p, q in zip(coords, tv.coordinates)]
                             + [conj([eq(x, y) for x, y in zip(tv.axes['wght'], snap_axes['wght'])]), len(tv.coordinates) == 3])
    b1 = c()
    observe('length', len(tobytes(b1)))
    ob('content-unchanged-by-compile', state())
    b2 = c()
    ob('second-compile-identical', same_bytes(b1, b2))
    ob('content-unchanged-by-second-compile', state())


# ------------------------------------------------------------------------------------------------ saving a font twice
@kernel('C16', funcs=['ttLib/ttFont.py:TTFont.save', 'ttLib/ttFont.py:TTFont._save', 'ttLib/sfnt.py:SFNTWriter.close', 'ttLib/sfnt.py:SFNTWriter.__setitem__',
                      'ttLib/sfnt.py:WOFFFlavorData.__init__', 'ttLib/sfnt.py:WOFFDirectoryEntry.encodeData'],
        bounds='font of raw tables (head 54 bytes + one other table, ALL bytes symbolic), flavor in {None, woff}; with woff a user-supplied flavorData whose '
               'version is left unset (and optional private data): save, save again -> identical bytes; the flavorData object is unchanged by saving; after '
               'the caller replaces the head table (new symbolic bytes, i.e. a new fontRevision) a further save writes the version of the NEW head into '
               'the WOFF header (nothing from the first save sticks to the font)',
        shims=['SFile', 'struct', 'zlib (environment stub, as C01)'], quick=[dict(flavor=None, priv=0), dict(flavor='woff', priv=0), dict(flavor='woff', priv=3)])
def save_twice_identical(flavor, priv):
    head1 = V.bytes('head1', 54)
    head2 = V.bytes('head2', 54)
    other = V.bytes('other', 6)
    font = TTFont(recalcTimestamp=False, recalcBBoxes=False)
    for tag, data in (('head', head1), ('zzzz', other)):
        t = DT.DefaultTable(tag)
        t.data = data
        font[tag] = t
    font.flavor = flavor
    fd = None
    if flavor == 'woff':
        fd = SF.WOFFFlavorData()
        fd.privData = V.bytes('priv', priv) if priv else None
        font.flavorData = fd
    z = _Zlib([-1])
    saved = (SF.compress, _sys.modules['zlib'])
    SF.compress = z.compress
    _sys.modules['zlib'] = z
    if symbolic():
        from sx import shims as _sh
        TF.BytesIO = _sh.BytesIO_shim
    try:
        def save():
            f = new_file()
            font.save(f, reorderTables=None)
            return f.getvalue()
        g1 = save()
        if fd is not None:
            ob('flavorData-untouched-by-save', fd.majorVersion is None and fd.minorVersion is None and fd.metaData is None)
        g2 = save()
        ob('second-save-identical', same_bytes(g1, g2))
        ob('tables-untouched', font['head'].data is head1 and font['zzzz'].data is other)
        if flavor == 'woff':
            d = blist(g1)
            ob('woff-version-from-head', conj([eq(be_uint(d[20:22]), be_uint(blist(head1)[4:6])), eq(be_uint(d[22:24]), be_uint(blist(head1)[6:8]))]))
            font['head'].data = head2
            d3 = blist(save())
            ob('woff-version-follows-new-head', conj([eq(be_uint(d3[20:22]), be_uint(blist(head2)[4:6])), eq(be_uint(d3[22:24]), be_uint(blist(head2)[6:8]))]))
    finally:
        SF.compress, _sys.modules['zlib'] = saved


# ------------------------------------------------------------------------------------------------ collections and the clock
def _head_table(modified):
    h = newTable('head')
    h.tableVersion, h.fontRevision = 1.0, 1.0
    h.checkSumAdjustment, h.magicNumber, h.flags, h.unitsPerEm = 0, 0x5F0F3CF5, 3, 1000
    h.created, h.modified = 3000000000, modified
    h.xMin = h.yMin = h.xMax = h.yMax = 0
    h.macStyle, h.lowestRecPPEM, h.fontDirectionHint, h.indexToLocFormat, h.glyphDataFormat = 0, 8, 2, 0, 0
    return h


@kernel('C16', funcs=['ttLib/ttCollection.py:TTCollection.save', 'ttLib/ttCollection.py:_sharedModifiedTimestamp', 'ttLib/tables/_h_e_a_d.py:table__h_e_a_d.compile',
                      'ttLib/ttFont.py:TTFont._save', 'ttLib/sfnt.py:writeTTCHeader'],
        bounds='collection of 2 fonts (head table object + one raw table with symbolic bytes); each font\'s recalcTimestamp flag symbolic; the clock '
               '(timestampNow) is an environment stub returning an arbitrary (symbolic) instant per save: after save every font\'s recalcTimestamp flag is '
               'what the caller set; a font with the flag on carries exactly the instant of the LATEST save in head.modified (both in memory and in '
               'the written bytes), a font with the flag off keeps its own value; saving twice at the same instant gives identical bytes',
        assumptions=['time.time / SOURCE_DATE_EPOCH replaced by a stub returning an arbitrary instant in [3.0e9, 4.0e9] (seconds since 1904)'],
        shims=['SFile', 'struct', 'sstruct', 'timestampNow (environment stub)'], quick=[dict(share=True), dict(share=False)], collide=True)
def collection_save_restores_state(share):
    flags = [V.bool('recalc0'), V.bool('recalc1')]
    own = [V.int('modified0', 3000000000, 4000000000), V.int('modified1', 3000000000, 4000000000)]
    nows = [V.int('now1', 3000000000, 4000000000), V.int('now2', 3000000000, 4000000000)]
    clock = {'i': 0}

    def stub_now():
        return nows[clock['i']]
    fonts = []
    for i in range(2):
        f = TTFont(recalcTimestamp=bool(flags[i]), recalcBBoxes=False)
        f['head'] = _head_table(own[i])
        t = DT.DefaultTable('zzzz')
        t.data = V.bytes('raw%d' % i, 4)
        f['zzzz'] = t
        fonts.append(f)
    want_flag = [f.recalcTimestamp for f in fonts]
    coll = TC.TTCollection()
    coll.fonts = fonts
    saved = (TC.timestampNow, HD.timestampNow)
    TC.timestampNow = HD.timestampNow = stub_now
    if symbolic():
        from sx import shims as _sh
        TC.BytesIO = _sh.BytesIO_shim
    try:
        def save():
            f = new_file()
            coll.save(f, shareTables=share)
            return f.getvalue()
        b1 = save()
        ob('flags-restored-after-save', all(f.recalcTimestamp is w for f, w in zip(fonts, want_flag)))
        ob('modified-is-the-save-instant-iff-flag-on', conj([eq(f['head'].modified, nows[0] if w else o) for f, w, o in zip(fonts, want_flag, own)]))
        b1b = save()
        ob('same-instant-same-bytes', same_bytes(b1, b1b))
        clock['i'] = 1
        b2 = save()
        ob('flags-restored-after-second-save', all(f.recalcTimestamp is w for f, w in zip(fonts, want_flag)))
        ob('later-save-carries-its-own-instant', conj([eq(f['head'].modified, nows[1] if w else o) for f, w, o in zip(fonts, want_flag, own)]))
    finally:
        TC.timestampNow, HD.timestampNow = saved


# ------------------------------------------------------------------------------------------------ lazy decoding: reader state isolation
@kernel('C16', funcs=['ttLib/tables/otBase.py:OTTableReader.__setitem__', 'ttLib/tables/otBase.py:OTTableReader.getSubReader', 'ttLib/tables/otBase.py:OTTableReader.copy',
                      'ttLib/tables/otBase.py:OTTableWriter.__setitem__', 'ttLib/tables/otBase.py:OTTableWriter.getSubWriter'],
        bounds='the propagated decoding state of OpenType Layout readers / writers (what makes lazy and eager decoding agree): a value a parent sets AFTER handing '
               'out a sub-reader (or copy) is not seen by that sub-reader, a value set before is; same for writers; values symbolic',
        quick=[dict()])
def reader_state_is_copy_on_write():
    a, b, c = V.int('a', 0, 1000), V.int('b', 0, 1000), V.int('c', 0, 1000)
    assume(neg(eq(a, b)))
    r = OB.OTTableReader(b'\0' * 8)
    r['FeatureTag'] = a
    sub = r.getSubReader(4)
    cp = r.copy()
    r['FeatureTag'] = b
    r['Other'] = c
    ob('sub-reader-keeps-the-value-it-was-given', conj([eq(sub['FeatureTag'], a), eq(cp['FeatureTag'], a)]))
    ob('later-keys-do-not-leak-into-earlier-children', 'Other' not in (sub.localState or {}) and 'Other' not in (cp.localState or {}))
    ob('parent-sees-its-own-update', eq(r['FeatureTag'], b))
    w = OB.OTTableWriter()
    w['ValueFormat'] = a
    sw = w.getSubWriter()
    w['ValueFormat'] = b
    ob('sub-writer-keeps-the-value-it-was-given', eq(sw['ValueFormat'], a))
