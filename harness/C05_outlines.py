"""C05 kernels: reported outlines, advances and variation scalars are the true ones.

External rasterisers cannot be made symbolic; the oracle is a short reference model written from the specifications inside this
harness (differential harness, symbolic inputs, no code shared with fontTools):
  * Type 2 charstring interpreter (Adobe TN 5177) vs T2OutlineExtractor / T2WidthExtractor,
  * composite glyph assembly (OpenType 'glyf') vs Glyph.getCoordinates,
  * normalisation / avar segment map / tent scalar (OpenType variations overview) vs varLib.models,
  * inferred deltas (gvar "Inferred deltas for un-referenced point numbers") vs varLib.iup.iup_delta.
"""
from sx.api import kernel, shim_all, V, ob, observe, eq, conj, disj, neg, assume, symbolic, le, lt, ite, real_of, collide, implies
import fontTools.misc.psCharStrings as PS
import fontTools.misc.roundTools as RT
from fontTools.misc.psCharStrings import T2CharString
from fontTools.pens.recordingPen import RecordingPen
import fontTools.varLib.models as M
import fontTools.varLib.iup as IUP
import fontTools.ttLib.tables._g_l_y_f as GL
import fontTools.misc.transform as TR
from harness.C09_variation import spec_tent, _div

shim_all(PS, RT, M, IUP, GL, TR)


class Priv:
    def __init__(self, nominalWidthX=0, defaultWidthX=0):
        self.nominalWidthX = nominalWidthX
        self.defaultWidthX = defaultWidthX


# ----------------------------------------------------------------------------------------------- Type 2 reference interpreter
def spec_t2(program, nominal, default):
    """Type 2 charstring semantics written from Adobe Technical Note #5177.  program: list of numbers / operator names / mask bytes.
    Returns (pen events, width)."""
    ev = []
    x = y = 0
    stack = []
    width = None
    open_path = False
    nhints = 0
    seen_clear = False

    def take_width(expected_even=None, expected_n=None):
        nonlocal width, seen_clear, stack
        if seen_clear:
            return
        seen_clear = True
        has = False
        if expected_n is not None:
            has = len(stack) > expected_n
        elif expected_even is not None:
            has = len(stack) % 2 == 1
        if has:
            width = nominal + stack[0]
            stack = stack[1:]
        else:
            width = default

    def move(dx, dy):
        nonlocal x, y, open_path
        if open_path:
            ev.append(('closePath',))
        x, y = x + dx, y + dy
        ev.append(('moveTo', (x, y)))
        open_path = True

    def line(dx, dy):
        nonlocal x, y
        x, y = x + dx, y + dy
        ev.append(('lineTo', (x, y)))

    def curve(a, b, c, d, e, f):
        nonlocal x, y
        p1 = (x + a, y + b)
        p2 = (p1[0] + c, p1[1] + d)
        p3 = (p2[0] + e, p2[1] + f)
        x, y = p3
        ev.append(('curveTo', p1, p2, p3))

    i = 0
    while i < len(program):
        tok = program[i]
        i += 1
        if not isinstance(tok, str):
            stack.append(tok)
            continue
        op = tok
        if op == 'rmoveto':
            take_width(expected_n=2)
            move(stack[0], stack[1])
        elif op == 'hmoveto':
            take_width(expected_n=1)
            move(stack[0], 0)
        elif op == 'vmoveto':
            take_width(expected_n=1)
            move(0, stack[0])
        elif op in ('hstem', 'vstem', 'hstemhm', 'vstemhm'):
            take_width(expected_even=True)
            nhints += len(stack) // 2
        elif op in ('hintmask', 'cntrmask'):
            take_width(expected_even=True)
            nhints += len(stack) // 2          # implied vstem
            i += 1                             # the mask: (nhints + 7) // 8 bytes, one token in a decompiled program
        elif op == 'endchar':
            take_width(expected_n=0)
            if open_path:
                ev.append(('closePath',))
                open_path = False
        elif op == 'rlineto':
            for k in range(0, len(stack), 2):
                line(stack[k], stack[k + 1])
        elif op in ('hlineto', 'vlineto'):
            horiz = op == 'hlineto'
            for v in stack:
                line(v, 0) if horiz else line(0, v)
                horiz = not horiz
        elif op == 'rrcurveto':
            for k in range(0, len(stack), 6):
                curve(*stack[k:k + 6])
        elif op == 'hhcurveto':
            s = list(stack)
            dy1 = 0
            if len(s) % 4 == 1:
                dy1, s = s[0], s[1:]
            for k in range(0, len(s), 4):
                curve(s[k], dy1, s[k + 1], s[k + 2], s[k + 3], 0)
                dy1 = 0
        elif op == 'vvcurveto':
            s = list(stack)
            dx1 = 0
            if len(s) % 4 == 1:
                dx1, s = s[0], s[1:]
            for k in range(0, len(s), 4):
                curve(dx1, s[k], s[k + 1], s[k + 2], 0, s[k + 3])
                dx1 = 0
        elif op in ('hvcurveto', 'vhcurveto'):
            s = list(stack)
            horiz = op == 'hvcurveto'
            last = None
            if len(s) % 4 == 1:
                last, s = s[-1], s[:-1]
            ngroups = len(s) // 4
            for g in range(ngroups):
                a, b, c, d = s[4 * g:4 * g + 4]
                extra = last if (g == ngroups - 1 and last is not None) else 0
                if horiz:
                    curve(a, 0, b, c, extra, d)
                else:
                    curve(0, a, b, c, d, extra)
                horiz = not horiz
        elif op == 'rcurveline':
            n = len(stack) - 2
            for k in range(0, n, 6):
                curve(*stack[k:k + 6])
            line(stack[n], stack[n + 1])
        elif op == 'rlinecurve':
            n = len(stack) - 6
            for k in range(0, n, 2):
                line(stack[k], stack[k + 1])
            curve(*stack[n:n + 6])
        elif op == 'flex':
            curve(*stack[0:6])
            curve(*stack[6:12])
        elif op == 'hflex':
            dx1, dx2, dy2, dx3, dx4, dx5, dx6 = stack
            curve(dx1, 0, dx2, dy2, dx3, 0)
            curve(dx4, 0, dx5, -dy2, dx6, 0)
        elif op == 'hflex1':
            dx1, dy1, dx2, dy2, dx3, dx4, dx5, dy5, dx6 = stack
            curve(dx1, dy1, dx2, dy2, dx3, 0)
            curve(dx4, 0, dx5, dy5, dx6, -(dy1 + dy2 + dy5))
        elif op == 'flex1':
            dx1, dy1, dx2, dy2, dx3, dy3, dx4, dy4, dx5, dy5, d6 = stack
            sx = dx1 + dx2 + dx3 + dx4 + dx5
            sy = dy1 + dy2 + dy3 + dy4 + dy5
            ax = ite(sx >= 0, sx, -sx)
            ay = ite(sy >= 0, sy, -sy)
            horizontal = bool(ax > ay)       # TN5177: "if abs(dx) > abs(dy)" the last point's x is d6 and its y returns to the start
            curve(dx1, dy1, dx2, dy2, dx3, dy3)
            if horizontal:
                curve(dx4, dy4, dx5, dy5, d6, -sy)
            else:
                curve(dx4, dy4, dx5, dy5, -sx, d6)
        else:
            raise AssertionError('operator %s not in the reference model' % op)
        stack = []
    return ev, width


def rec_events(value):
    out = []
    for op, pts in value:
        if op in ('closePath', 'endPath'):
            out.append((op,))
        else:
            out.append((op,) + tuple(pts))
    return out


def same_events(a, b):
    if len(a) != len(b):
        return False
    conds = []
    for e1, e2 in zip(a, b):
        if e1[0] != e2[0] or len(e1) != len(e2):
            return False
        for p, q in zip(e1[1:], e2[1:]):
            conds += [eq(p[0], q[0]), eq(p[1], q[1])]
    return conj(conds)


# operator forms: (operator, number of arguments)
T2_FORMS = [
    ('rlineto', 2), ('rlineto', 4), ('hlineto', 1), ('hlineto', 2), ('hlineto', 3), ('vlineto', 1), ('vlineto', 2), ('vlineto', 3),
    ('rrcurveto', 6), ('rrcurveto', 12), ('hhcurveto', 4), ('hhcurveto', 5), ('hhcurveto', 8), ('hhcurveto', 9),
    ('vvcurveto', 4), ('vvcurveto', 5), ('vvcurveto', 8), ('vvcurveto', 9),
    ('hvcurveto', 4), ('hvcurveto', 5), ('hvcurveto', 8), ('hvcurveto', 9), ('hvcurveto', 12), ('hvcurveto', 13),
    ('vhcurveto', 4), ('vhcurveto', 5), ('vhcurveto', 8), ('vhcurveto', 9), ('vhcurveto', 12), ('vhcurveto', 13),
    ('rcurveline', 8), ('rcurveline', 14), ('rlinecurve', 8), ('rlinecurve', 10),
    ('flex', 13), ('hflex', 7), ('hflex1', 9), ('flex1', 11),
]
FIRSTS = ['rmoveto', 'hmoveto', 'vmoveto', 'hstem+hintmask', 'vstemhm+cntrmask', 'hstem']

F_T2 = ['misc/psCharStrings.py:T2CharString.draw', 'misc/psCharStrings.py:SimpleT2Decompiler.execute', 'misc/psCharStrings.py:T2WidthExtractor.popallWidth',
        'misc/psCharStrings.py:T2OutlineExtractor.rCurveTo', 'misc/psCharStrings.py:T2OutlineExtractor.alternatingLineto', 'misc/psCharStrings.py:T2OutlineExtractor.vcurveto',
        'misc/psCharStrings.py:T2OutlineExtractor.hcurveto', 'misc/psCharStrings.py:T2OutlineExtractor.op_flex1', 'misc/psCharStrings.py:T2OutlineExtractor.op_hflex1',
        'misc/psCharStrings.py:T2OutlineExtractor.op_hvcurveto', 'misc/psCharStrings.py:T2OutlineExtractor.op_vhcurveto', 'misc/psCharStrings.py:T2OutlineExtractor.op_rcurveline']


def _prog(first, forms, width, tag=''):
    prog = []
    n = [0]

    def args(k):
        vs = [V.real('a%s%d' % (tag, n[0] + j), -1000, 1000) for j in range(k)]
        n[0] += k
        return vs
    w = [V.real('w', -500, 1500)] if width else []
    if first == 'rmoveto':
        prog += w + args(2) + ['rmoveto']
    elif first in ('hmoveto', 'vmoveto'):
        prog += w + args(1) + [first]
    elif first == 'hstem+hintmask':
        prog += w + args(2) + ['hstem'] + args(2) + ['hintmask', b'\xc0'] + args(2) + ['rmoveto']
    elif first == 'vstemhm+cntrmask':
        prog += w + args(4) + ['vstemhm', 'cntrmask', b'\x80'] + args(1) + ['hmoveto']
    elif first == 'hstem':
        prog += w + args(2) + ['hstem'] + args(2) + ['vstem'] + args(1) + ['vmoveto']
    for op, k in forms:
        prog += args(k) + [op]
    prog.append('endchar')
    return prog


@kernel('C05', funcs=F_T2,
        bounds='charstring = <first: one of 6 stack-clearing openers incl. stem hints + hintmask/cntrmask> <one or two path operators, each in every '
               'argument-count form of the Type 2 operator table (38 forms)> endchar; optional width operand; EVERY operand a symbolic real in '
               '[-1000, 1000]; nominalWidthX/defaultWidthX symbolic.  Outline events and advance width vs the in-harness TN5177 interpreter',
        outside=['subroutines, blend, arithmetic/storage operators, seac-style endchar', 'more than two path operators per charstring (operators are '
                 'stateless apart from the current point and the alternation inside one operator, both exercised)'],
        shims=['int/isinstance/float'],
        quick=[dict(first='rmoveto', forms=[i], width=w) for i in range(len(T2_FORMS)) for w in (0,)]
        + [dict(first=f, forms=[j], width=1) for f, j in zip(FIRSTS, (0, 3, 8, 18, 34, 37))]
        + [dict(first='rmoveto', forms=[37, 21], width=0), dict(first='hmoveto', forms=[3, 25], width=1)],
        thorough=[dict(first=f, forms=[i], width=w) for f in FIRSTS for i in range(len(T2_FORMS)) for w in (0, 1)]
        + [dict(first='rmoveto', forms=[i, j], width=0) for i in (1, 4, 7, 12, 21, 27, 31, 33, 37) for j in range(0, len(T2_FORMS), 3)])
def t2_extractor_vs_spec(first, forms, width):
    nominal = V.real('nominalWidthX', -100, 1000)
    default = V.real('defaultWidthX', 0, 1000)
    prog = _prog(first, [T2_FORMS[i] for i in forms], width)
    cs = T2CharString(program=list(prog), private=Priv(nominal, default))
    pen = RecordingPen()
    cs.draw(pen)
    got = rec_events(pen.value)
    want, wwidth = spec_t2(prog, nominal, default)
    observe('n_events', len(got))
    ob('same-outline', same_events(got, want))
    ob('same-width', eq(cs.width, wwidth))


# ----------------------------------------------------------------------------------------------- normalisation, avar, tent scalars
@kernel('C05', funcs=['varLib/models.py:normalizeValue'],
        bounds='ALL real v and ALL axis triples lower <= default <= upper (incl. degenerate: lower == default, default == upper, all equal), '
               'extrapolate False: the OpenType default normalisation (clamp, then (v-default)/(default-lower) below and /(upper-default) above)',
        quick=[dict()])
def normalize_value_spec():
    lo = V.real('lower', -2000, 2000)
    df = V.real('default', -2000, 2000)
    up = V.real('upper', -2000, 2000)
    v = V.real('v', -3000, 3000)
    assume(le(lo, df))
    assume(le(df, up))
    got = M.normalizeValue(v, (lo, df, up))
    observe('normalized', got)
    vc = ite(lt(v, lo), lo, ite(lt(up, v), up, v))
    want = ite(lt(vc, df), _div(vc - df, df - lo), ite(lt(df, vc), _div(vc - df, up - df), 0))
    ob('spec', eq(got, want))
    ob('range', conj([le(-1, got), le(got, 1)]))
    ob('min-default-max', conj([implies(conj([eq(v, lo), lt(lo, df)]), eq(got, -1)), implies(eq(v, df), eq(got, 0)), implies(conj([eq(v, up), lt(df, up)]), eq(got, 1))]))


@kernel('C05', funcs=['varLib/models.py:piecewiseLinearMap'],
        bounds='avar-style segment map with n in 2..4 symbolic knots (strictly increasing keys, arbitrary values), ALL real v: equals the spec '
               'interpolation between the two surrounding knots; outside the knots the map continues with slope 1 (library convention, documented)',
        shims=['dict keyed by symbolic reals: collide mode (all keys symbolic)'], quick=[dict(n=2), dict(n=3)], thorough=[dict(n=2), dict(n=3), dict(n=4)], collide=True)
def piecewise_linear_map_spec(n):
    ks = [V.real('k%d' % i, -2, 2) for i in range(n)]
    vs = [V.real('m%d' % i, -2, 2) for i in range(n)]
    for a, b in zip(ks, ks[1:]):
        assume(lt(a, b))
    v = V.real('v', -3, 3)
    mapping = dict(zip(ks, vs))
    got = M.piecewiseLinearMap(v, mapping)
    observe('mapped', got)
    want = None
    # from the avar spec: find the segment k_i <= v <= k_{i+1}
    expr = v + vs[-1] - ks[-1]
    for i in range(n - 2, -1, -1):
        seg = vs[i] + _div((vs[i + 1] - vs[i]) * (v - ks[i]), ks[i + 1] - ks[i])
        expr = ite(le(v, ks[i + 1]), seg, expr)
    expr = ite(lt(v, ks[0]), v + vs[0] - ks[0], expr)
    ob('spec', eq(got, expr))


@kernel('C05', funcs=['varLib/models.py:supportScalar'],
        bounds='ALL real regions (lower, peak, upper) and locations on 1 and 2 axes: equals the product of the per-axis OpenType tent scalars '
               '(reference model spec_tent of C09, independent of supportScalar); axes missing from the location count as 0',
        quick=[dict(naxes=1), dict(naxes=2)])
def support_scalar_spec(naxes):
    tags = ['wght', 'wdth'][:naxes]
    loc = {}
    sup = {}
    want = 1
    for t in tags:
        lo, pk, up = V.real(t + '_lower', -2, 2), V.real(t + '_peak', -2, 2), V.real(t + '_upper', -2, 2)
        v = V.real(t + '_v', -2, 2)
        sup[t] = (lo, pk, up)
        loc[t] = v
        want = want * spec_tent(v, (lo, pk, up))
    got = M.supportScalar(loc, sup)
    observe('scalar', got)
    ob('product-of-tents', eq(got, want))
    got0 = M.supportScalar({}, sup)
    want0 = 1
    for t in tags:
        want0 = want0 * spec_tent(0, sup[t])
    ob('missing-axis-is-default', eq(got0, want0))


# ----------------------------------------------------------------------------------------------- inferred deltas (IUP)
def spec_iup_axis(c, c1, d1, c2, d2):
    """gvar spec, per axis: target coordinate c between reference coordinates c1 (delta d1) and c2 (delta d2)"""
    same = eq(c1, c2)
    # if the two reference coordinates coincide: their common delta if the deltas agree, else 0
    r_same = ite(eq(d1, d2), d1, 0)
    lo_c = ite(le(c1, c2), c1, c2)
    lo_d = ite(le(c1, c2), d1, d2)
    hi_c = ite(le(c1, c2), c2, c1)
    hi_d = ite(le(c1, c2), d2, d1)
    inter = lo_d + _div((c - lo_c) * (hi_d - lo_d), hi_c - lo_c)
    r = ite(le(c, lo_c), lo_d, ite(le(hi_c, c), hi_d, inter))
    return ite(same, r_same, r)


@kernel('C05', funcs=['varLib/iup.py:iup_delta', 'varLib/iup.py:iup_contour', 'varLib/iup.py:iup_segment'],
        bounds='one contour of n in 3..5 points with the touched-point pattern from the parameters (1 or 2 touched points, the rest inferred), '
               'ALL coordinates and deltas symbolic reals: every inferred delta equals the OpenType gvar inference rule, per axis '
               '(incl. reference points sharing a coordinate with equal / different deltas; single touched point -> its delta everywhere)',
        quick=[dict(pat='x.x'), dict(pat='x..x'), dict(pat='x..'), dict(pat='.x.x')],
        thorough=[dict(pat=p) for p in ('x.x', 'x..x', 'x..', '.x.x', 'x.x.', 'x...x', '..x', 'xx.', 'x.x.x')])
def iup_delta_spec(pat):
    n = len(pat)
    coords = [(V.real('x%d' % i, -1000, 1000), V.real('y%d' % i, -1000, 1000)) for i in range(n)]
    deltas = [(V.real('dx%d' % i, -500, 500), V.real('dy%d' % i, -500, 500)) if c == 'x' else None for i, c in enumerate(pat)]
    # the four phantom points follow the outline (each its own contour); they carry explicit zero deltas here
    out = IUP.iup_delta(list(deltas) + [(0, 0)] * 4, list(coords) + [(0, 0), (500, 0), (0, 800), (0, -200)], [n - 1])
    observe('n', len(out))
    ob('length', len(out) == n + 4)
    out = out[:n]
    touched = [i for i, c in enumerate(pat) if c == 'x']
    conds = []
    for i in range(n):
        if deltas[i] is not None:
            conds.append(conj([eq(out[i][0], deltas[i][0]), eq(out[i][1], deltas[i][1])]))
            continue
        if len(touched) == 1:
            t = touched[0]
            conds.append(conj([eq(out[i][0], deltas[t][0]), eq(out[i][1], deltas[t][1])]))
            continue
        # nearest touched points before and after i, cyclically
        prev = max([t for t in touched if t < i], default=touched[-1])
        nxt = min([t for t in touched if t > i], default=touched[0])
        for ax in (0, 1):
            conds.append(eq(out[i][ax], spec_iup_axis(coords[i][ax], coords[prev][ax], deltas[prev][ax], coords[nxt][ax], deltas[nxt][ax])))
    ob('inferred-deltas-match-spec', conj(conds))


# ----------------------------------------------------------------------------------------------- composite glyph assembly
class _GT(dict):
    pass


def _simple(prefix, n):
    g = GL.Glyph()
    g.numberOfContours = 1
    pts = [(V.real('%sx%d' % (prefix, i), -1000, 1000), V.real('%sy%d' % (prefix, i), -1000, 1000)) for i in range(n)]
    g.coordinates = GL.GlyphCoordinates(pts)
    g.endPtsOfContours = [n - 1]
    g.flags = bytearray([1] * n)
    return g, pts


@kernel('C05', funcs=['ttLib/tables/_g_l_y_f.py:Glyph.getCoordinates', 'ttLib/tables/_g_l_y_f.py:GlyphCoordinates.transform', 'ttLib/tables/_g_l_y_f.py:GlyphCoordinates.translate',
                      'ttLib/tables/_g_l_y_f.py:GlyphCoordinates.scale'],
        bounds='composite of 1-2 components over 2-point simple glyphs; ALL coordinates, offsets and 2x2 transform entries symbolic reals; offset '
               'kinds: xy (unscaled offset, the default), scaled (SCALED_COMPONENT_OFFSET), anchor (point matching firstPt/secondPt on the second '
               'component); also one nested composite',
        assumptions=['GlyphCoordinates.__getitem__ returns int(x) for integral x and x otherwise: modelled as x (same value, type distinction outside the model)'],
        shims=['array("d") over reals'], quick=[dict(kind=k) for k in ('xy', 'xy+t', 'scaled+t', 'anchor', 'anchor+t', 'nested')], isint_false=True)
def composite_coordinates_spec(kind):
    base, bpts = _simple('b', 2)
    gt = _GT(base=base)
    tr = None
    if '+t' in kind or kind == 'nested':
        tr = [[V.real('xx', -2, 2), V.real('xy', -2, 2)], [V.real('yx', -2, 2), V.real('yy', -2, 2)]]

    def apply(p, t):
        # glyf spec: x' = xscale*x + scale10*y ; y' = scale01*x + yscale*y, with transform = [[xscale, scale01], [scale10, yscale]]
        if t is None:
            return p
        return (t[0][0] * p[0] + t[1][0] * p[1], t[0][1] * p[0] + t[1][1] * p[1])

    comp = GL.GlyphComponent()
    comp.glyphName = 'base'
    comp.flags = 0
    if tr is not None:
        comp.transform = tr
    want = []
    if kind.startswith('xy') or kind.startswith('scaled') or kind == 'nested':
        ox, oy = V.real('ox', -500, 500), V.real('oy', -500, 500)
        comp.x, comp.y = ox, oy
        if kind.startswith('scaled'):
            comp.flags = GL.SCALED_COMPONENT_OFFSET
            off = apply((ox, oy), tr)
        else:
            off = (ox, oy)
        want = [(apply(p, tr)[0] + off[0], apply(p, tr)[1] + off[1]) for p in bpts]
        comps = [comp]
    else:
        # first component plain at offset, second attached by point matching
        comp0 = GL.GlyphComponent()
        comp0.glyphName = 'base'
        comp0.flags = 0
        comp0.x, comp0.y = V.real('ox', -500, 500), V.real('oy', -500, 500)
        first = [(p[0] + comp0.x, p[1] + comp0.y) for p in bpts]
        other, opts = _simple('c', 2)
        gt['other'] = other
        comp.glyphName = 'other'
        comp.firstPt, comp.secondPt = 1, 0
        tp = [apply(p, tr) for p in opts]
        mv = (first[1][0] - tp[0][0], first[1][1] - tp[0][1])
        want = first + [(p[0] + mv[0], p[1] + mv[1]) for p in tp]
        comps = [comp0, comp]
    g = GL.Glyph()
    g.numberOfContours = -1
    g.components = comps
    if kind == 'nested':
        gt['inner'] = g
        outer = GL.Glyph()
        outer.numberOfContours = -1
        c2 = GL.GlyphComponent()
        c2.glyphName = 'inner'
        c2.flags = 0
        c2.x, c2.y = V.real('px', -500, 500), V.real('py', -500, 500)
        outer.components = [c2]
        want = [(p[0] + c2.x, p[1] + c2.y) for p in want]
        g = outer
    coords, endPts, flags = g.getCoordinates(gt)
    ob('point-count', len(coords) == len(want))
    ob('endPts', list(endPts) == [2 * i + 1 for i in range(len(want) // 2)])
    if len(coords) == len(want):
        ob('coordinates', conj([conj([eq(coords[i][0], want[i][0]), eq(coords[i][1], want[i][1])]) for i in range(len(want))]))


# ----------------------------------------------------------------------------------------------- variable glyph instance (gvar applied on the fly)
import fontTools.ttLib.ttGlyphSet as GS
import fontTools.ttLib.tables.TupleVariation as TVM
shim_all(GS, TVM)


@kernel('C05', funcs=['ttLib/ttGlyphSet.py:_TTGlyphGlyf._getGlyphInstance', 'ttLib/ttGlyphSet.py:_setCoordinates', 'ttLib/tables/_g_l_y_f.py:table__g_l_y_f._getCoordinatesAndControls',
                      'ttLib/tables/_g_l_y_f.py:table__g_l_y_f._getPhantomPoints', 'varLib/iup.py:iup_delta', 'varLib/models.py:supportScalar',
                      'ttLib/tables/_g_l_y_f.py:GlyphCoordinates.__iadd__', 'ttLib/tables/_g_l_y_f.py:GlyphCoordinates.__mul__'],
        bounds='one-axis variable font, one simple glyph of 3 points (symbolic integer coordinates, advance, lsb) with TWO gvar tuples whose regions '
               'have symbolic peaks; tuple 1 has explicit symbolic deltas on all points, tuple 2 touches the points in the pattern and leaves the '
               'rest to inference; location symbolic in [0, 1] (normalised).  Instance outline = default + sum_i scalar_i * (explicit or inferred '
               'delta_i, inferred against the DEFAULT outline as the gvar spec says); advance from the phantom points within 1/2',
        assumptions=['GlyphCoordinates.__getitem__ int/float type distinction outside the model (isint_false)'],
        shims=['array("d") over reals', 'int/round'], quick=[dict(pat='x.x'), dict(pat='.xx')], thorough=[dict(pat=p) for p in ('x.x', '.xx', 'xx.', 'x..', 'xxx')],
        isint_false=True, max_paths=100000)
def glyph_instance_spec(pat):
    from fontTools.ttLib import TTFont, newTable
    from fontTools.ttLib.tables._f_v_a_r import Axis
    font = TTFont(recalcTimestamp=False)
    font.setGlyphOrder(['a'])
    fvar = newTable('fvar')
    ax = Axis()
    ax.axisTag, ax.minValue, ax.defaultValue, ax.maxValue = 'wght', 400, 400, 900
    fvar.axes = [ax]
    fvar.instances = []
    glyf = newTable('glyf')
    g = GL.Glyph()
    g.numberOfContours = 1
    pts = [(V.int('x%d' % i, -500, 500, bv=False), V.int('y%d' % i, -500, 500, bv=False)) for i in range(3)]
    g.coordinates = GL.GlyphCoordinates(pts)
    g.endPtsOfContours = [2]
    g.flags = bytearray([1, 1, 1])
    g.program = None
    # the stored bounding box is taken as given (any values): recalculation of bounds is C04.glyph_bounds' subject, and ordering the
    # points to compute it here would multiply the paths without touching the code under check
    g.xMin, g.yMin, g.xMax, g.yMax = (V.int(n, -600, 600, bv=False) for n in ('xMin', 'yMin', 'xMax', 'yMax'))
    glyf.glyphs = {'a': g}
    glyf.glyphOrder = ['a']
    hmtx = newTable('hmtx')
    aw = V.int('aw', 0, 2000, bv=False)
    lsb = V.int('lsb', -300, 300, bv=False)
    hmtx.metrics = {'a': (aw, lsb)}
    gvar = newTable('gvar')
    pk1 = V.real('peak1', 0, 1)
    pk2 = V.real('peak2', 0, 1)
    assume(lt(0, pk1))
    assume(lt(0, pk2))
    d1 = [(V.real('d1x%d' % i, -200, 200), V.real('d1y%d' % i, -200, 200)) for i in range(3)] + [(0, 0), (V.real('d1adv', -100, 100), 0), (0, 0), (0, 0)]
    d2 = [(V.real('d2x%d' % i, -200, 200), V.real('d2y%d' % i, -200, 200)) if c == 'x' else None for i, c in enumerate(pat)] + [(0, 0), (V.real('d2adv', -100, 100), 0), (0, 0), (0, 0)]
    gvar.variations = {'a': [TVM.TupleVariation({'wght': (0, pk1, 1)}, list(d1)), TVM.TupleVariation({'wght': (0, pk2, pk2)}, list(d2))]}
    font['fvar'], font['glyf'], font['hmtx'], font['gvar'] = fvar, glyf, hmtx, gvar
    v = V.real('v', 0, 1)
    assume(lt(0, v))
    gs = font.getGlyphSet(location={'wght': v}, normalized=True, recalcBounds=False)
    tg = gs['a']
    inst = tg._getGlyphInstance()
    coords = inst.coordinates
    observe('npts', len(coords))
    s1 = spec_tent(v, (0, pk1, 1))
    s2 = spec_tent(v, (0, pk2, pk2))
    touched = [i for i, c in enumerate(pat) if c == 'x']
    want = []
    for i in range(3):
        comp = []
        for axn in (0, 1):
            if d2[i] is not None:
                dd = d2[i][axn]
            elif len(touched) == 1:
                dd = d2[touched[0]][axn]
            else:
                prev = max([t for t in touched if t < i], default=touched[-1])
                nxt = min([t for t in touched if t > i], default=touched[0])
                dd = spec_iup_axis(pts[i][axn], pts[prev][axn], d2[prev][axn], pts[nxt][axn], d2[nxt][axn])
            comp.append(pts[i][axn] + s1 * d1[i][axn] + s2 * dd)
        want.append(tuple(comp))
    ob('point-count', len(coords) == 3)
    if len(coords) == 3:
        ob('instance-outline', conj([conj([eq(coords[i][0], want[i][0]), eq(coords[i][1], want[i][1])]) for i in range(3)]))
    wadv = aw + s1 * d1[4][0] + s2 * d2[4][0]
    ob('advance-within-half', conj([le(tg.width - wadv, 0.5), le(wadv - tg.width, 0.5)]))


@kernel('C05', funcs=['misc/psCharStrings.py:calcSubrBias'],
        bounds='ALL subroutine counts n in [0, 70000]: the bias is 107 below 1240 subroutines, 1131 below 33900, 32768 otherwise (Type 2 charstring format)',
        quick=[dict()])
def subr_bias_spec():
    import builtins
    n = V.int('n', 0, 70000)
    lst = object()
    # calcSubrBias(subrs) only takes len(subrs): the module-level name `len` is pointed at a stand-in whose length is the symbolic count
    had = 'len' in PS.__dict__
    saved = PS.__dict__.get('len')
    PS.__dict__['len'] = lambda x: n if x is lst else builtins.len(x)
    try:
        bias = PS.calcSubrBias(lst)
    finally:
        if had:
            PS.__dict__['len'] = saved
        else:
            del PS.__dict__['len']
    observe('bias', bias)
    ob('spec', eq(bias, ite(lt(n, 1240), 107, ite(lt(n, 33900), 1131, 32768))))


@kernel('C05', funcs=['ttLib/ttGlyphSet.py:_TTGlyphGlyf._getGlyphInstance', 'ttLib/ttGlyphSet.py:_setCoordinates', 'ttLib/tables/_g_l_y_f.py:table__g_l_y_f._getCoordinatesAndControls'],
        bounds='composite glyph (one component, symbolic offset) whose gvar tuple moves the component offset (symbolic deltas): the instance at a symbolic '
               'location has offset = default + scalar * delta; asking AGAIN (same and another location) from the same font gives the same answers, and the '
               'font\'s own glyf table still holds the default offset (drawing an instance does not write into the font)',
        shims=['array("d") over reals'], quick=[dict()], isint_false=True)
def composite_instance_is_pure():
    from fontTools.ttLib import TTFont, newTable
    from fontTools.ttLib.tables._f_v_a_r import Axis
    font = TTFont(recalcTimestamp=False)
    font.setGlyphOrder(['a', 'comp'])
    fvar = newTable('fvar')
    ax = Axis()
    ax.axisTag, ax.minValue, ax.defaultValue, ax.maxValue = 'wght', 400, 400, 900
    fvar.axes, fvar.instances = [ax], []
    glyf = newTable('glyf')
    a = GL.Glyph()
    a.numberOfContours = 1
    a.coordinates = GL.GlyphCoordinates([(0, 0), (100, 0), (50, 80)])
    a.endPtsOfContours, a.flags, a.program = [2], bytearray([1, 1, 1]), None
    a.xMin, a.yMin, a.xMax, a.yMax = 0, 0, 100, 80
    comp = GL.Glyph()
    comp.numberOfContours = -1
    c = GL.GlyphComponent()
    c.glyphName, c.flags = 'a', 0
    ox, oy = V.int('ox', -500, 500, bv=False), V.int('oy', -500, 500, bv=False)
    c.x, c.y = ox, oy
    comp.components = [c]
    comp.xMin, comp.yMin, comp.xMax, comp.yMax = 0, 0, 100, 80
    glyf.glyphs, glyf.glyphOrder = {'a': a, 'comp': comp}, ['a', 'comp']
    hmtx = newTable('hmtx')
    hmtx.metrics = {'a': (500, 0), 'comp': (500, 0)}
    gvar = newTable('gvar')
    dx, dy = V.real('dx', -300, 300), V.real('dy', -300, 300)
    gvar.variations = {'comp': [TVM.TupleVariation({'wght': (0, 1, 1)}, [(dx, dy), (0, 0), (0, 0), (0, 0), (0, 0)])], 'a': []}
    font['fvar'], font['glyf'], font['hmtx'], font['gvar'] = fvar, glyf, hmtx, gvar
    v1, v2 = V.real('v1', 0, 1), V.real('v2', 0, 1)
    assume(lt(0, v1))
    assume(lt(0, v2))

    def offset_at(v):
        gs = font.getGlyphSet(location={'wght': v}, normalized=True, recalcBounds=False)
        inst = gs['comp']._getGlyphInstance()
        return inst.components[0].x, inst.components[0].y
    conds = []
    for k, v in enumerate((v1, v1, v2, v1)):
        x, y = offset_at(v)
        conds.append(conj([eq(x, ox + v * dx), eq(y, oy + v * dy)]))
    ob('every-draw-starts-from-the-default', conj(conds))
    ob('font-not-modified', conj([eq(glyf['comp'].components[0].x, ox), eq(glyf['comp'].components[0].y, oy)]))
