"""C12 kernels: rewriting a Type 2 charstring never changes what it draws.

Programs are enumerated by SHAPE (operator sequence + argument counts); every operand is a
symbolic real, so the zero/non-zero patterns the specialiser's peephole rules key on are solver forks.
Outlines are drawn with the real T2CharString.draw / T2OutlineExtractor.
"""
import itertools
from sx.api import kernel, shim_all, V, ob, observe, eq, conj, disj, neg, shim, shim_defaults, assume, symbolic, seq_eq, le, tobytes
from fontTools.cffLib.specializer import (specializeProgram, generalizeProgram, programToCommands, commandsToProgram,
                                          specializeCommands, generalizeCommands)
import fontTools.misc.psCharStrings as PS
import fontTools.misc.roundTools as RT
from fontTools.misc.psCharStrings import T2CharString
from fontTools.pens.recordingPen import RecordingPen
import fontTools.pens.t2CharStringPen as T2P

shim_all(PS)
shim_all(RT)
shim_all(T2P)
for _f in (PS.encodeIntCFF, PS.encodeIntT1, PS.encodeIntT2):
    shim_defaults(_f, bytechr='bytechr', pack='struct.pack', unpack='struct.unpack')
shim_defaults(PS.encodeFixed, pack='struct.pack')
shim_defaults(PS.T2CharString.getToken, byteord='byteord', isinstance='isinstance')


class Priv:
    def __init__(self, nominalWidthX=0, defaultWidthX=0):
        self.nominalWidthX = nominalWidthX
        self.defaultWidthX = defaultWidthX


def draw(program, priv=None):
    cs = T2CharString(program=list(program), private=priv or Priv())
    pen = RecordingPen()
    cs.draw(pen)
    return pen.value, cs.width


def events_eq(a, b):
    if len(a) != len(b):
        return False
    conds = []
    for (op1, pts1), (op2, pts2) in zip(a, b):
        if op1 != op2 or len(pts1) != len(pts2):
            return False
        for p, q in zip(pts1, pts2):
            conds.append(eq(p[0], q[0]))
            conds.append(eq(p[1], q[1]))
    return conj(conds)


def canonical(events):
    """same filled outline: drop zero-length lines, curves whose control points coincide with their end points become
    lines, consecutive horizontal (resp. vertical) lines merge."""
    out = []
    cur = None
    for op, pts in events:
        if op == 'moveTo':
            cur = pts[0]
            out.append((op, pts))
            continue
        if op == 'curveTo':
            p1, p2, p3 = pts
            if bool(conj([eq(p1[0], cur[0]), eq(p1[1], cur[1]), eq(p2[0], p3[0]), eq(p2[1], p3[1])])):
                op, pts = 'lineTo', (p3,)
            else:
                out.append((op, pts))
                cur = p3
                continue
        if op == 'lineTo':
            p = pts[0]
            if bool(conj([eq(p[0], cur[0]), eq(p[1], cur[1])])):
                continue
            if out and out[-1][0] == 'lineTo' and len(out) >= 2:
                prev_start = out[-2][1][-1] if out[-2][0] != 'closePath' else None
                if prev_start is not None:
                    q = out[-1][1][0]
                    horiz = bool(conj([eq(prev_start[1], q[1]), eq(q[1], p[1])]))
                    vert = (not horiz) and bool(conj([eq(prev_start[0], q[0]), eq(q[0], p[0])]))
                    if horiz or vert:
                        out[-1] = ('lineTo', (p,))
                        cur = p
                        # merged line may have become zero-length
                        if bool(conj([eq(p[0], prev_start[0]), eq(p[1], prev_start[1])])):
                            out.pop()
                        continue
            out.append((op, pts))
            cur = p
            continue
        out.append((op, pts))
    return out


ARITY = {  # operator -> predicate on argument count (Type 2 charstring format, table of operators)
    'rmoveto': lambda n: n == 2, 'hmoveto': lambda n: n == 1, 'vmoveto': lambda n: n == 1,
    'rlineto': lambda n: n >= 2 and n % 2 == 0, 'hlineto': lambda n: n >= 1, 'vlineto': lambda n: n >= 1,
    'rrcurveto': lambda n: n >= 6 and n % 6 == 0,
    'hhcurveto': lambda n: n >= 4 and n % 4 in (0, 1), 'vvcurveto': lambda n: n >= 4 and n % 4 in (0, 1),
    'hvcurveto': lambda n: n >= 4 and n % 8 in (0, 1, 4, 5), 'vhcurveto': lambda n: n >= 4 and n % 8 in (0, 1, 4, 5),
    'rcurveline': lambda n: n >= 8 and (n - 2) % 6 == 0, 'rlinecurve': lambda n: n >= 8 and (n - 6) % 2 == 0,
    'endchar': lambda n: n in (0, 4),
}


def check_program_form(prog, maxstack, had_width):
    """operand-stack limit and operator arities of an emitted program"""
    depth = 0
    maxdepth = 0
    ok = True
    first = True
    for tok in prog:
        if isinstance(tok, str):
            n = depth
            if first and had_width:
                n -= 1
            first = False
            f = ARITY.get(tok)
            if f is not None and not f(n):
                ok = False
            depth = 0
        else:
            depth += 1
            maxdepth = max(maxdepth, depth)
    return ok, maxdepth <= maxstack


NARGS = {'rmoveto': 2, 'hmoveto': 1, 'vmoveto': 1, 'rlineto': 2, 'rrcurveto': 6}


def build(shape, width=False):
    prog = []
    k = 0
    if width:
        prog.append(V.real('w'))
    for op, n in shape:
        for _ in range(n):
            prog.append(V.real('a%d' % k))
            k += 1
        prog.append(op)
    prog.append('endchar')
    return prog


GEN_OPS = [('rlineto', 2), ('rrcurveto', 6)]


def gen_shapes(maxlen, minlen=1):
    out = []
    for n in range(minlen, maxlen + 1):
        for seq in itertools.product(GEN_OPS, repeat=n):
            out.append([('rmoveto', 2)] + list(seq))
    return out


def _shape_params(shapes):
    return [dict(shape=[list(s) for s in sh]) for sh in shapes]


F_SPEC = ['cffLib/specializer.py:specializeProgram', 'cffLib/specializer.py:specializeCommands', 'cffLib/specializer.py:generalizeCommands',
          'cffLib/specializer.py:programToCommands', 'cffLib/specializer.py:commandsToProgram', 'cffLib/specializer.py:_categorizeVector',
          'misc/psCharStrings.py:T2CharString.draw', 'misc/psCharStrings.py:T2OutlineExtractor']


def _q3():
    # length-3 sequences that are not all curves (all-curve length 3 = 4096 zero patterns: thorough only)
    return [s for s in gen_shapes(3, 3) if sum(1 for op, _ in s if op == 'rrcurveto') <= 2 and s[2][0] != s[3][0]][:4]


@kernel('C12', funcs=F_SPEC,
        bounds='rmoveto + every sequence of <= 2 (quick; plus 4 mixed length-3) / <= 3 (thorough) operators from {rlineto, rrcurveto}, '
               'optional width operand, ALL operands symbolic reals (each zero/non-zero pattern is a solver fork)',
        outside=['blend operators', 'hints', 'sequences longer than the bound'],
        quick=_shape_params(gen_shapes(2) + _q3()) + [dict(shape=[list(s) for s in sh], width=True) for sh in gen_shapes(1)],
        thorough=_shape_params(gen_shapes(3)) + [dict(shape=[list(s) for s in sh], width=True) for sh in gen_shapes(2)],
        max_paths=200000)
def specialize_preserve_topology(shape, width=False):
    prog = build(shape, width)
    before, w0 = draw(prog)
    sp = specializeProgram(prog, preserveTopology=True)
    after, w1 = draw(sp)
    observe('specialised-events', [[op, [list(p) for p in pts]] for op, pts in after])
    ob('specialised-same-points', events_eq(before, after))
    ob('width-unchanged', eq(w0, w1) if width else (w0 == w1))
    arity_ok, stack_ok = check_program_form(sp, 48, width)
    ob('arities', arity_ok)
    ob('stack-limit', stack_ok)
    gp = generalizeProgram(sp)
    after2, w2 = draw(gp)
    ob('generalised-same-points', events_eq(before, after2))
    sp2 = specializeProgram(gp, preserveTopology=True)
    after3, _ = draw(sp2)
    ob('respecialise-stable', events_eq(after, after3))


@kernel('C12', funcs=F_SPEC,
        bounds='same programs as specialize_preserve_topology, default mode (topology may change): outlines compared after the harness '
               'canonicaliser (zero-length lines dropped, degenerate curves = lines, collinear axis-parallel lines merged)',
        outside=['blend operators', 'hints'],
        quick=_shape_params(gen_shapes(2) + _q3()), thorough=_shape_params(gen_shapes(3)), max_paths=200000)
def specialize_default(shape):
    prog = build(shape)
    before, w0 = draw(prog)
    sp = specializeProgram(prog)
    after, w1 = draw(sp)
    cb, ca = canonical(before), canonical(after)
    ob('same-outline', events_eq(cb, ca))
    arity_ok, stack_ok = check_program_form(sp, 48, False)
    ob('arities', arity_ok)
    ob('stack-limit', stack_ok)
    gp = generalizeProgram(sp)
    after2, _ = draw(gp)
    ob('generalised-same-outline', events_eq(canonical(after2), cb))


SPEC_SHAPES = [
    [('hmoveto', 1), ('hlineto', 1)], [('vmoveto', 1), ('vlineto', 1)], [('rmoveto', 2), ('hlineto', 2)], [('rmoveto', 2), ('hlineto', 3)],
    [('rmoveto', 2), ('vlineto', 2)], [('rmoveto', 2), ('vlineto', 3)], [('rmoveto', 2), ('vlineto', 4)],
    [('rmoveto', 2), ('hhcurveto', 4)], [('rmoveto', 2), ('hhcurveto', 5)], [('rmoveto', 2), ('hhcurveto', 8)], [('rmoveto', 2), ('hhcurveto', 9)],
    [('rmoveto', 2), ('vvcurveto', 4)], [('rmoveto', 2), ('vvcurveto', 5)], [('rmoveto', 2), ('vvcurveto', 8)], [('rmoveto', 2), ('vvcurveto', 9)],
    [('rmoveto', 2), ('hvcurveto', 4)], [('rmoveto', 2), ('hvcurveto', 5)], [('rmoveto', 2), ('hvcurveto', 8)], [('rmoveto', 2), ('hvcurveto', 9)],
    [('rmoveto', 2), ('hvcurveto', 12)], [('rmoveto', 2), ('hvcurveto', 13)],
    [('rmoveto', 2), ('vhcurveto', 4)], [('rmoveto', 2), ('vhcurveto', 5)], [('rmoveto', 2), ('vhcurveto', 8)], [('rmoveto', 2), ('vhcurveto', 9)],
    [('rmoveto', 2), ('vhcurveto', 12)], [('rmoveto', 2), ('vhcurveto', 13)],
    [('rmoveto', 2), ('rcurveline', 8)], [('rmoveto', 2), ('rlinecurve', 8)], [('rmoveto', 2), ('rlinecurve', 10)],
    [('rmoveto', 2), ('rlineto', 4)], [('rmoveto', 2), ('rrcurveto', 12)],
]


def _spec_reference(shape_op, args, cur):
    """Type 2 spec semantics of the specialised operators, written from the spec (Adobe TN#5177 section 4.1) -> events"""
    ev = []
    x, y = cur

    def line(dx, dy):
        nonlocal x, y
        x, y = x + dx, y + dy
        ev.append(('lineTo', ((x, y),)))

    def curve(a, b, c, d, e, f):
        nonlocal x, y
        p1 = (x + a, y + b)
        p2 = (p1[0] + c, p1[1] + d)
        x, y = p2[0] + e, p2[1] + f
        ev.append(('curveTo', (p1, p2, (x, y))))
    a = list(args)
    op = shape_op
    if op == 'rlineto':
        for i in range(0, len(a), 2):
            line(a[i], a[i + 1])
    elif op in ('hlineto', 'vlineto'):
        h = op == 'hlineto'
        for v in a:
            if h:
                line(v, 0)
            else:
                line(0, v)
            h = not h
    elif op == 'rrcurveto':
        for i in range(0, len(a), 6):
            curve(*a[i:i + 6])
    elif op == 'hhcurveto':
        dy1 = 0
        if len(a) % 4 == 1:
            dy1 = a.pop(0)
        for i in range(0, len(a), 4):
            curve(a[i], dy1, a[i + 1], a[i + 2], a[i + 3], 0)
            dy1 = 0
    elif op == 'vvcurveto':
        dx1 = 0
        if len(a) % 4 == 1:
            dx1 = a.pop(0)
        for i in range(0, len(a), 4):
            curve(dx1, a[i], a[i + 1], a[i + 2], 0, a[i + 3])
            dx1 = 0
    elif op in ('hvcurveto', 'vhcurveto'):
        h = op == 'hvcurveto'
        last = None
        if len(a) % 4 == 1:
            last = a.pop()
        n = len(a) // 4
        for i in range(n):
            b = a[4 * i:4 * i + 4]
            extra = last if (i == n - 1 and last is not None) else 0
            if h:
                curve(b[0], 0, b[1], b[2], extra, b[3])
            else:
                curve(0, b[0], b[1], b[2], b[3], extra)
            h = not h
    elif op == 'rcurveline':
        for i in range(0, len(a) - 2, 6):
            curve(*a[i:i + 6])
        line(a[-2], a[-1])
    elif op == 'rlinecurve':
        for i in range(0, len(a) - 6, 2):
            line(a[i], a[i + 1])
        curve(*a[-6:])
    return ev, (x, y)


@kernel('C12', funcs=F_SPEC + ['cffLib/specializer.py:_GeneralizerDecombinerCommandsMap'],
        bounds='every specialised path operator in every argument-count form listed in SPEC_SHAPES (hlineto/vlineto 1-4 args, hh/vv 4,5,8,9, '
               'hv/vh 4,5,8,9,12,13, rcurveline, rlinecurve), all operands symbolic reals; drawn path compared with an in-harness '
               'interpreter written from the Type 2 spec',
        quick=_shape_params(SPEC_SHAPES), max_paths=200000)
def generalize_specialised_forms(shape):
    prog = build(shape)
    before, _ = draw(prog)
    # independent reference semantics
    mop, margs = shape[0][0], prog[:shape[0][1]]
    if mop == 'rmoveto':
        cur = (margs[0], margs[1])
    elif mop == 'hmoveto':
        cur = (margs[0], 0)
    else:
        cur = (0, margs[0])
    ref = [('moveTo', (cur,))]
    i = shape[0][1] + 1
    for op, n in shape[1:]:
        ev, cur = _spec_reference(op, prog[i:i + n], cur)
        ref.extend(ev)
        i += n + 1
    ref.append(('closePath', ()))
    ob('extractor-matches-spec', events_eq(before, ref))
    gp = generalizeProgram(prog)
    after, _ = draw(gp)
    ob('generalised-same-points', events_eq(before, after))
    ok = all(tok in ('rmoveto', 'rlineto', 'rrcurveto', 'endchar') for tok in gp if isinstance(tok, str))
    ob('generalised-alphabet', ok)
    sp = specializeProgram(prog, preserveTopology=True)
    after2, _ = draw(sp)
    ob('specialised-same-points', events_eq(before, after2))
    arity_ok, stack_ok = check_program_form(sp, 48, False)
    ob('arities', arity_ok)


@kernel('C12', funcs=F_SPEC + ['cffLib/specializer.py:_argsStackUse'],
        bounds='shape family: rmoveto + n identical-operator segments (rlineto or rrcurveto) with operands constrained non-zero so they '
               'all merge into one operator; n around the point where the merged operand count crosses maxstack=48 (and 513 for CFF2)',
        quick=[dict(op='rlineto', n=n, maxstack=48) for n in (23, 24, 25)] + [dict(op='rrcurveto', n=n, maxstack=48) for n in (7, 8, 9)],
        thorough=[dict(op='rlineto', n=n, maxstack=48) for n in (22, 23, 24, 25, 26, 47, 48, 49)] + [dict(op='rrcurveto', n=n, maxstack=48) for n in (7, 8, 9, 15, 16, 17)]
        + [dict(op='rlineto', n=n, maxstack=513) for n in (255, 256, 257)])
def stack_limit_family(op, n, maxstack):
    na = NARGS[op]
    prog = [V.real('mx'), V.real('my'), 'rmoveto']
    a = [V.real('a%d' % i) for i in range(na)]
    for v in a:
        assume(neg(eq(v, 0)))
    for i in range(n):
        prog.extend(a)
        prog.append(op)
    prog.append('endchar')
    before, _ = draw(prog)
    sp = specializeProgram(prog, maxstack=maxstack)
    after, _ = draw(sp)
    arity_ok, stack_ok = check_program_form(sp, maxstack, False)
    ob('stack-limit', stack_ok)
    ob('arities', arity_ok)
    ob('same-points', events_eq(before, after))
    nops = sum(1 for t in sp if isinstance(t, str)) - 2
    observe('operators-emitted', nops)


# ------------------------------------------------------------------- width encoding
@kernel('C12', funcs=['pens/t2CharStringPen.py:T2CharStringPen.getCharString', 'pens/t2CharStringPen.py:T2CharStringPen._p',
                       'misc/psCharStrings.py:T2WidthExtractor.popallWidth', 'misc/psCharStrings.py:T2CharString.draw'],
        bounds='one contour of 1-2 line segments with symbolic integer coordinates in [-2000, 2000], symbolic integer width in [0, 4000] and '
               'symbolic integer nominalWidthX/defaultWidthX in [0, 2000]; pen -> program -> T2 extractor with the same private dict',
        shims=['round/otRound'], quick=[dict(nseg=1), dict(nseg=2)], exact=True)
def pen_width_roundtrip(nseg):
    w = V.int('w', 0, 4000, bv=False)
    nom = V.int('nominalWidthX', 0, 2000, bv=False)
    dflt = V.int('defaultWidthX', 0, 2000, bv=False)
    pts = [(V.int('x%d' % i, -2000, 2000, bv=False), V.int('y%d' % i, -2000, 2000, bv=False)) for i in range(nseg + 1)]
    priv = Priv(nom, dflt)
    # what a font compiler does (fontBuilder.setupCFF / cffLib width handling): width is stored relative to nominalWidthX,
    # omitted when it equals defaultWidthX
    width_arg = None if bool(eq(w, dflt)) else w - nom
    pen = T2P.T2CharStringPen(width_arg, None)
    pen.moveTo(pts[0])
    for p in pts[1:]:
        pen.lineTo(p)
    pen.closePath()
    cs = pen.getCharString(private=priv)
    rec = RecordingPen()
    cs.draw(rec)
    ob('width-recovered', eq(cs.width, w))
    ev = rec.value
    want = [('moveTo', (pts[0],))] + [('lineTo', (p,)) for p in pts[1:]] + [('closePath', ())]
    ob('same-outline', events_eq(canonical(ev), canonical(want)))


# ------------------------------------------------------------------- byte code round trip
@kernel('C12', funcs=['misc/psCharStrings.py:T2CharString.compile', 'misc/psCharStrings.py:T2CharString.decompile', 'misc/psCharStrings.py:encodeFixed',
                       'misc/psCharStrings.py:getIntEncoder.<locals>.encodeInt', 'misc/psCharStrings.py:T2CharString.getToken', 'misc/psCharStrings.py:SimpleT2Decompiler.execute'],
        bounds='program rmoveto + rlineto (2 or 4 operands) or one rrcurveto, at most 6 symbolic INTEGER operands in [-32768, 32767] (each operand size class is a fork, 5 classes per operand; 8 operands exceeded the path budget and are outside the claim): '
               'compile -> decompile returns the same program and draws the same points',
        shims=['struct', 'bytechr', 'byteord', 'bytesjoin', 'SLookup(t2OperandEncoding)'],
        quick=[dict(shape=[['rmoveto', 2], ['rlineto', 2]])], thorough=[dict(shape=[['rmoveto', 2], ['rlineto', 2]]), dict(shape=[['rmoveto', 2], ['rlineto', 4]]), dict(shape=[['rrcurveto', 6]])],
        max_paths=100000)
def bytecode_roundtrip_int(shape):
    prog = []
    k = 0
    for op, n in shape:
        for _ in range(n):
            prog.append(V.int('a%d' % k, -32768, 32767))
            k += 1
        prog.append(op)
    prog.append('endchar')
    _bytecode_roundtrip(prog, exact=True)


def _bytecode_roundtrip(prog, exact, tol=None):
    cs = T2CharString(program=list(prog), private=Priv())
    cs.compile()
    code = cs.bytecode
    observe('bytecode', tobytes(code))
    cs2 = T2CharString(bytecode=code, private=Priv())
    if symbolic():
        from sx.shims import SLookup
        saved = PS.t2OperandEncoding
        cs2.operandEncoding = SLookup(saved)
    cs2.decompile()
    p2 = cs2.program
    ob('same-length', len(p2) == len(prog))
    if len(p2) != len(prog):
        return
    conds = []
    for a, b in zip(prog, p2):
        if isinstance(a, str) or isinstance(b, str):
            conds.append(a == b)
        elif exact:
            conds.append(eq(a, b))
        else:
            conds.append(conj([le(a - b, tol), le(b - a, tol)]))
    ob('same-program', conj(conds))


@kernel('C12', funcs=['misc/psCharStrings.py:T2CharString.compile', 'misc/psCharStrings.py:T2CharString.decompile', 'misc/psCharStrings.py:encodeFixed',
                       'misc/fixedTools.py:floatToFixed', 'misc/roundTools.py:otRound', 'misc/psCharStrings.py:read_fixed1616'],
        bounds='program rmoveto with two symbolic REAL operands in [-32768, 32767.99]: compile -> decompile returns operands within the 16.16 '
               'quantisation error 2^-17 of the originals (not a whole unit off)',
        shims=['struct', 'bytechr', 'byteord', 'bytesjoin', 'math.floor', 'int', 'isinstance'])
def bytecode_roundtrip_real():
    a = V.real('a0', -32768, 32767.99)
    b = V.real('a1', -32768, 32767.99)
    prog = [a, b, 'rmoveto', 'endchar']
    _bytecode_roundtrip(prog, exact=False, tol=1.0 / 131072)


# ------------------------------------------------------------------------------------------------ subroutines and hints
import fontTools.cffLib.transforms as TRF
shim_all(TRF)


class _Private:
    def __init__(self, nominalWidthX, defaultWidthX, subrs):
        self.nominalWidthX = nominalWidthX
        self.defaultWidthX = defaultWidthX
        self.Subrs = subrs
        self.rawDict = {}
        self.in_cff2 = False


def _R(n, prefix='a'):
    return [V.real('%s%d' % (prefix, i), -500, 500) for i in range(n)]


def _hinted_font(shape, width):
    """returns (main charstring, all charstrings).  Subr operands: index - 107 (bias for < 1240 subroutines)."""
    a = _R(12)
    h = _R(8, 'h')
    w = [V.real('w', -300, 900)] if width else []
    S0, S1 = -107, -106
    subrs, gsubrs = [], []
    if shape == 'main-only':
        main = w + [h[0], h[1], 'hstem', h[2], h[3], 'vstem', a[0], a[1], 'rmoveto', a[2], a[3], 'rlineto', 'endchar']
    elif shape == 'subr-only-hints':
        subrs = [[h[0], h[1], 'hstem', 'return']]
        main = w + [S0, 'callsubr', a[0], a[1], 'rmoveto', a[2], a[3], 'rlineto', 'endchar']
    elif shape == 'subr-hints-then-operands':
        subrs = [[h[0], h[1], 'hstem', a[0], a[1], 'return']]
        main = w + [S0, 'callsubr', 'rmoveto', a[2], a[3], 'rlineto', 'endchar']
    elif shape == 'subr-operands-for-hintmask':
        subrs = [[h[2], h[3], 'return']]
        main = w + [h[0], h[1], 'hstemhm', S0, 'callsubr', 'hintmask', b'\xc0', a[0], a[1], 'rmoveto', a[2], a[3], 'rlineto', 'endchar']
    elif shape == 'subr-hints-and-path':
        subrs = [[h[0], h[1], 'hstem', a[0], a[1], 'rmoveto', 'return']]
        main = w + [S0, 'callsubr', a[2], a[3], 'rlineto', 'endchar']
    elif shape == 'nested':
        subrs = [[h[0], h[1], 'hstem', S1, 'callsubr', 'return'], [a[0], a[1], 'return']]
        main = w + [S0, 'callsubr', 'rmoveto', a[2], a[3], 'rlineto', 'endchar']
    elif shape == 'gsubr-path':
        gsubrs = [[a[2], a[3], 'rlineto', a[4], a[5], a[6], a[7], a[8], a[9], 'rrcurveto', 'return']]
        subrs = [[h[0], h[1], 'hstem', 'return']]
        main = w + [S0, 'callsubr', a[0], a[1], 'rmoveto', S0, 'callgsubr', 'endchar']
    elif shape == 'hintmask-mid':
        main = w + [h[0], h[1], 'hstemhm', h[2], h[3], 'hintmask', b'\xc0', a[0], a[1], 'rmoveto', a[2], a[3], 'rlineto', 'hintmask', b'\x80', a[4], a[5], 'rlineto', 'endchar']
    else:
        raise ValueError(shape)
    nominal = V.real('nominalWidthX', -100, 800)
    default = V.real('defaultWidthX', 0, 800)
    priv = _Private(nominal, default, [])
    G = []
    for p in subrs:
        priv.Subrs.append(T2CharString(program=list(p), private=priv, globalSubrs=G))
    for p in gsubrs:
        G.append(T2CharString(program=list(p), private=priv, globalSubrs=G))
    cs = T2CharString(program=list(main), private=priv, globalSubrs=G)
    return cs, priv, G


def _draw_cs(cs):
    pen = RecordingPen()
    cs.draw(pen)
    return pen.value, cs.width


HINT_SHAPES = ['main-only', 'subr-only-hints', 'subr-hints-then-operands', 'subr-operands-for-hintmask', 'subr-hints-and-path', 'nested', 'gsubr-path', 'hintmask-mid']


@kernel('C12', funcs=['cffLib/transforms.py:remove_hints', 'cffLib/transforms.py:_DehintingT2Decompiler.execute', 'cffLib/transforms.py:_DehintingT2Decompiler.processSubr',
                      'cffLib/transforms.py:_DehintingT2Decompiler.processHint', 'cffLib/transforms.py:_DehintingT2Decompiler.processHintmask', 'cffLib/transforms.py:_cs_drop_hints'],
        bounds='one-glyph CFF font; charstring shapes with stem hints in the glyph and/or in local subroutines (a subroutine that is only hints; hints followed '
               'by operands it leaves on the stack for the caller; operands that become an implicit vstem of the caller\'s hintmask; hints followed by path '
               'operators; nested calls; a global subroutine with path operators; hintmask in mid-path), with and without a width operand; ALL operands '
               'symbolic reals: after remove_hints the glyph draws the same outline and has the same advance width, and no hint operator is left',
        quick=[dict(shape=s, width=w) for s in HINT_SHAPES for w in (0, 1)])
def remove_hints_keeps_outline(shape, width):
    cs, priv, G = _hinted_font(shape, width)
    before, w0 = _draw_cs(cs)
    font = type('F', (), {})()
    font.CharStrings = {'a': cs}
    font.Private = priv

    class Set(dict):
        pass
    cff = Set(f=font)
    TRF.remove_hints(cff, removeUnusedSubrs=False)
    after, w1 = _draw_cs(cs)
    observe('n_events', len(after))
    ob('same-outline', events_eq(before, after))
    ob('same-width', eq(w0, w1))
    left = [t for c in [cs] + list(priv.Subrs) + list(G) for t in c.program if isinstance(t, str) and t in ('hstem', 'vstem', 'hstemhm', 'vstemhm', 'hintmask', 'cntrmask')]
    ob('no-hint-operator-left', not left)


@kernel('C12', funcs=['cffLib/transforms.py:desubroutinizeCharString', 'cffLib/transforms.py:_DesubroutinizingT2Decompiler.execute', 'cffLib/transforms.py:_DesubroutinizingT2Decompiler.processSubr',
                      'cffLib/transforms.py:_DesubroutinizingT2Decompiler.op_hintmask'],
        bounds='the same charstring shapes: after desubroutinizeCharString the program contains no callsubr / callgsubr / return, and draws the same outline with the '
               'same width without any subroutine table',
        quick=[dict(shape=s, width=w) for s in HINT_SHAPES for w in (0, 1)])
def desubroutinize_keeps_outline(shape, width):
    cs, priv, G = _hinted_font(shape, width)
    before, w0 = _draw_cs(cs)
    TRF.desubroutinizeCharString(cs)
    ob('no-calls-left', not [t for t in cs.program if t in ('callsubr', 'callgsubr', 'return')])
    flat = T2CharString(program=list(cs.program), private=_Private(priv.nominalWidthX, priv.defaultWidthX, []), globalSubrs=[])
    after, w1 = _draw_cs(flat)
    ob('same-outline', events_eq(before, after))
    ob('same-width', eq(w0, w1))


@kernel('C12', funcs=['misc/psCharStrings.py:T2StackUseExtractor.execute', 'misc/psCharStrings.py:SimpleT2Decompiler.execute'],
        bounds='charstrings rmoveto + one operator with k operands, k from 40 to 52 around the CFF limit of 48 (rlineto / hlineto / rrcurveto forms), with and '
               'without a width operand, all operands symbolic: the reported maximum operand-stack depth equals the number of operands pushed before the operator '
               '(what convertCFF2ToCFF compares with 48)',
        quick=[dict(op='hlineto', k=k, width=w) for k in (47, 48, 49) for w in (0, 1)] + [dict(op='rlineto', k=48, width=1)],
        thorough=[dict(op=o, k=k, width=w) for o in ('hlineto', 'rlineto') for k in (40, 46, 47, 48, 49, 50, 52) for w in (0, 1) if o != 'rlineto' or k % 2 == 0])
def stack_use_is_true_depth(op, k, width):
    args = [V.real('a%d' % i, -100, 100) for i in range(k)]
    w = [V.real('w', 0, 900)] if width else []
    prog = w + [args[0], args[1], 'rmoveto'] + args + [op, 'endchar']
    cs = T2CharString(program=list(prog), private=Priv())
    ext = PS.T2StackUseExtractor([], [], private=cs.private)
    depth = ext.execute(cs)
    ob('max-depth', depth == max(k, 2 + width))


@kernel('C12', funcs=['cffLib/transforms.py:remove_unused_subroutines', 'cffLib/transforms.py:_MarkingT2Decompiler.op_callgsubr', 'cffLib/transforms.py:_cs_subset_subroutines',
                      'misc/psCharStrings.py:calcSubrBias'],
        bounds='a glyph calling `used` of `total` global subroutines, with (total, used) on both sides of the bias thresholds of the Type 2 format (1240: bias 107 -> '
               '1131); a few subroutine operands symbolic: after remove_unused_subroutines the glyph draws the same outline (call operands are re-encoded for the '
               'bias of the PRUNED subroutine list) and no unused subroutine is left',
        quick=[dict(total=1245, used=1235), dict(total=30, used=20)], thorough=[dict(total=t, used=u) for t, u in ((1245, 1235), (30, 20), (1300, 1250), (1240, 1239), (1239, 1239))])
def prune_subrs_keeps_outline(total, used):
    from fontTools.cffLib import GlobalSubrsIndex
    G = GlobalSubrsIndex()
    priv = _Private(0, 500, [])
    del priv.Subrs
    sym = {0: (V.real('s0x', -50, 50), V.real('s0y', -50, 50)), used - 1: (V.real('s1x', -50, 50), V.real('s1y', -50, 50)), used // 2: (V.real('s2x', -50, 50), V.real('s2y', -50, 50))}
    for i in range(total):
        dx, dy = sym.get(i, ((i % 7) - 3, (i % 5) - 2))
        G.append(T2CharString(program=[dx, dy, 'rlineto', 'return'], private=priv, globalSubrs=G))
    bias = PS.calcSubrBias(G)
    prog = [10, 20, 'rmoveto']
    for i in range(used):
        prog += [i - bias, 'callgsubr']
    prog.append('endchar')
    cs = T2CharString(program=prog, private=priv, globalSubrs=G)
    before, w0 = _draw_cs(cs)
    font = type('F', (), {})()
    font.CharStrings, font.GlobalSubrs, font.Private = {'A': cs}, G, priv

    class Set(dict):
        pass
    TRF.remove_unused_subroutines(Set(f=font))
    after, w1 = _draw_cs(cs)
    observe('n_subrs_left', len(G))
    ob('unused-subroutines-removed', len(G) == used)
    ob('same-outline', events_eq(before, after))
    ob('same-width', eq(w0, w1))


# ------------------------------------------------------------------------------------------------ CFF2 blend packing
import fontTools.cffLib.specializer as SPZ


@kernel('C12', funcs=['cffLib/specializer.py:_convertToBlendCmds'],
        bounds='one merged operator with p plain operands followed by q blended operands of r regions (p, q, r from the parameter list: up to 5 + 258 operands, 1-16 regions; the shapes are chosen so that one blend group would cross the limit if plain operands were not counted), '
               'every default value and delta SYMBOLIC: the packed argument list, run by the CFF2 blend rule (push n defaults, n*r deltas, n; blend leaves n values), '
               'leaves exactly the original operands - each blended one with its own default and its own deltas, in order - and the operand stack never holds more '
               'than 513 entries (the CFF2 limit) at any point; the structure (p, q, r) is concrete per task, so the claim covers the listed shapes only',
        shims=[], quick=[dict(p=0, q=3, r=2), dict(p=5, q=140, r=3), dict(p=4, q=175, r=2), dict(p=3, q=40, r=16)],
        thorough=[dict(p=p, q=q, r=r) for p, q, r in ((0, 1, 1), (0, 3, 2), (5, 140, 3), (4, 175, 2), (3, 40, 16), (0, 171, 2), (3, 128, 3), (5, 110, 4), (4, 60, 8), (1, 255, 1), (2, 258, 1), (5, 70, 3))])
def blend_cmds_stack_and_value(p, q, r):
    plain = [V.int('p%d' % i, -1000, 1000) for i in range(p)]
    blended = [[V.int('d%d_%d' % (i, k), -1000, 1000) for k in range(r + 1)] + [1] for i in range(q)]
    args = list(plain) + [list(b) for b in blended]
    new_args = SPZ._convertToBlendCmds(args)
    stack, peak, ok = [], 0, True
    for a in new_args:
        if isinstance(a, list):
            n = a[-1]
            if not isinstance(n, int) or len(a) != n * (r + 1) + 1:
                ok = False
                break
            peak = max(peak, len(stack) + len(a))
            for i in range(n):
                stack.append((a[i], [a[n + i * r + k] for k in range(r)]))
        else:
            stack.append((a, None))
            peak = max(peak, len(stack))
    observe('peak', peak)
    observe('n_cmds', len(new_args))
    ob('well-formed-blend-groups', ok)
    ob('stack-within-cff2-limit', peak <= 513)
    want = [(v, None) for v in plain] + [(b[0], b[1:-1]) for b in blended]
    conds = [len(stack) == len(want)]
    for (g, gd), (w, wd) in zip(stack, want):
        conds.append(eq(g, w))
        conds.append((gd is None) == (wd is None))
        if gd is not None and wd is not None:
            conds.append(len(gd) == len(wd))
            conds += [eq(x, y) for x, y in zip(gd, wd)]
    ob('operands-and-deltas-preserved', conj(conds))
