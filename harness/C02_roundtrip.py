"""C02 kernels: encoding valid content and decoding it returns the same content (object -> bytes -> object), cross-checked by
readers written from the OpenType specification inside this harness (no code shared with fontTools)."""
from sx.api import instrument, kernel, shim_all, shim, be_uint, V, ob, observe, eq, conj, disj, neg, assume, symbolic, le, lt, tobytes, ite, is_int, implies
import fontTools.ttLib.tables._g_l_y_f as GL
import fontTools.ttLib.tables._h_m_t_x as HM
import fontTools.ttLib.tables._k_e_r_n as KE
import fontTools.ttLib.tables._l_o_c_a as LO
import fontTools.ttLib.tables.ttProgram as TP
import fontTools.misc.roundTools as RT
import fontTools.misc.fixedTools as FT
import fontTools.ttLib.ttFont as TF
from fontTools.ttLib import TTLibError

shim_all(GL, HM, KE, LO, TP, RT, FT, TF)
instrument(GL.Glyph)


class Stub(dict):
    """stand-in for a TTFont: tables by tag + a glyph order"""

    def __init__(self, order, **tables):
        dict.__init__(self, tables)
        self.order = list(order)

    def getGlyphOrder(self):
        return self.order

    def getGlyphID(self, name):
        return self.order.index(name)

    def getGlyphName(self, gid):
        return self.order[int(gid)]

    def getReverseGlyphMap(self):
        return {n: i for i, n in enumerate(self.order)}

    def __len__(self):
        return len(self.order)


class Rec:
    def __init__(self, **kw):
        self.__dict__.update(kw)


def blist(x):
    x = tobytes(x)
    return list(x.b) if hasattr(x, 'b') else list(x)


def s16(bs):
    v = be_uint(bs)
    return ite(v >= 0x8000, v - 0x10000, v)


def s8(b):
    return ite(b >= 0x80, b - 0x100, b)


# ---------------------------------------------------------------------------------------------- composite glyph components
@kernel('C02', funcs=['ttLib/tables/_g_l_y_f.py:GlyphComponent.compile', 'ttLib/tables/_g_l_y_f.py:GlyphComponent.decompile', 'misc/fixedTools.py:floatToFixed',
                      'misc/fixedTools.py:fixedToFloat', 'misc/roundTools.py:otRound'],
        bounds='one component: kind xy = symbolic integer offsets over int16, kind pts = symbolic point numbers over uint16 (both byte and word '
               'forms are solver forks); transform none / uniform scale / x-y scale / 2x2 with symbolic F2Dot14 numerators over int16; all 16 '
               'bits of the stored flags symbolic; more/haveInstructions symbolic; glyph id symbolic over uint16',
        shims=['struct', 'int/round/math.floor'],
        quick=[dict(kind=k, tr=t) for k in ('xy', 'pts') for t in ('none', 'scale', 'xy', '2x2')])
def component_roundtrip(kind, tr):
    c = GL.GlyphComponent()
    c.glyphName = 'comp'
    gid = V.int('gid', 0, 0xFFFF)
    c.flags = V.int('flags', 0, 0xFFFF)
    flags0 = c.flags
    if kind == 'xy':
        c.x = V.int('x', -0x8000, 0x7FFF)
        c.y = V.int('y', -0x8000, 0x7FFF)
    else:
        c.firstPt = V.int('firstPt', 0, 0xFFFF)
        c.secondPt = V.int('secondPt', 0, 0xFFFF)
    nums = None
    if tr != 'none':
        n = {'scale': 1, 'xy': 2, '2x2': 4}[tr]
        ks = [V.int('k%d' % i, -0x8000, 0x7FFF, bv=False) for i in range(n)]
        if tr == 'scale':
            nums = [ks[0], 0, 0, ks[0]]
        elif tr == 'xy':
            nums = [ks[0], 0, 0, ks[1]]
        else:
            nums = ks
        c.transform = [[nums[0] / 16384, nums[1] / 16384], [nums[2] / 16384, nums[3] / 16384]]
    more = V.bool('more')
    hi = V.bool('haveInstructions')

    class Gt:
        def getGlyphID(self, name):
            return gid

        def getGlyphName(self, g):
            self.seen = g
            return 'comp'
    gt = Gt()
    data = c.compile(more, hi, gt)
    observe('data', tobytes(data))
    d = blist(data)
    # ---- reader written from the 'glyf' spec (composite glyph description)
    fl = be_uint(d[0:2])
    ob('spec:glyphIndex', eq(be_uint(d[2:4]), gid))
    words = (fl & 0x0001) != 0
    isxy = (fl & 0x0002) != 0
    ob('spec:ARGS_ARE_XY_VALUES', eq(isxy, kind == 'xy') if symbolic() else bool(isxy) == (kind == 'xy'))
    ob('spec:MORE_COMPONENTS', eq((fl & 0x0020) != 0, more))
    ob('spec:WE_HAVE_INSTRUCTIONS', eq((fl & 0x0100) != 0, hi))
    keep = 0x0004 | 0x0200 | 0x0800 | 0x1000 | 0x0400 | 0x0040     # ROUND_XY_TO_GRID USE_MY_METRICS SCALED UNSCALED OVERLAP_COMPOUND NON_OVERLAPPING(0x0040 is WE_HAVE_AN_X_AND_Y_SCALE!)
    keep = 0x0004 | 0x0200 | 0x0800 | 0x1000 | 0x0400
    ob('spec:user-flags-kept', eq(fl & keep, flags0 & keep))
    wordy = bool(words)
    pos = 4
    if wordy:
        a1, a2 = d[pos:pos + 2], d[pos + 2:pos + 4]
        pos += 4
        if kind == 'xy':
            ob('spec:args', conj([eq(s16(a1), c.x), eq(s16(a2), c.y)]))
        else:
            ob('spec:args', conj([eq(be_uint(a1), c.firstPt), eq(be_uint(a2), c.secondPt)]))
    else:
        a1, a2 = d[pos], d[pos + 1]
        pos += 2
        if kind == 'xy':
            ob('spec:args', conj([eq(s8(a1), c.x), eq(s8(a2), c.y)]))
        else:
            ob('spec:args', conj([eq(a1, c.firstPt), eq(a2, c.secondPt)]))
    has_scale = bool((fl & 0x0008) != 0)
    has_xy = bool((fl & 0x0040) != 0)
    has_22 = bool((fl & 0x0080) != 0)
    ob('spec:at-most-one-transform-flag', has_scale + has_xy + has_22 == (0 if tr == 'none' else 1))
    if has_scale:
        got = [s16(d[pos:pos + 2]), 0, 0, s16(d[pos:pos + 2])]
        pos += 2
    elif has_xy:
        got = [s16(d[pos:pos + 2]), 0, 0, s16(d[pos + 2:pos + 4])]
        pos += 4
    elif has_22:
        got = [s16(d[pos + 2 * i:pos + 2 * i + 2]) for i in range(4)]
        pos += 8
    else:
        got = None
    ob('spec:length', pos == len(d))
    if nums is not None:
        ob('spec:transform', got is not None and conj([eq(g, n) for g, n in zip(got, nums)]))
    # ---- fontTools' own reader
    c2 = GL.GlyphComponent()
    more2, hi2, rest = c2.decompile(data, gt)
    ob('decompile:rest-empty', len(rest) == 0)
    ob('decompile:glyph', eq(gt.seen, gid))
    ob('decompile:more', eq(more2 != 0, more))
    ob('decompile:haveInstructions', eq(hi2 != 0, hi))
    ob('decompile:flags', eq(c2.flags & keep, flags0 & keep))
    if kind == 'xy':
        ob('decompile:xy', conj([eq(c2.x, c.x), eq(c2.y, c.y)]) if not hasattr(c2, 'firstPt') else False)
    else:
        ob('decompile:points', conj([eq(c2.firstPt, c.firstPt), eq(c2.secondPt, c.secondPt)]) if hasattr(c2, 'firstPt') else False)
    if nums is None:
        ob('decompile:no-transform', not hasattr(c2, 'transform'))
    else:
        t2 = getattr(c2, 'transform', None)
        ob('decompile:transform', t2 is not None and conj([eq(t2[0][0] * 16384, nums[0]), eq(t2[0][1] * 16384, nums[1]),
                                                             eq(t2[1][0] * 16384, nums[2]), eq(t2[1][1] * 16384, nums[3])]))


# ---------------------------------------------------------------------------------------------- hmtx
@kernel('C02', funcs=['ttLib/tables/_h_m_t_x.py:table__h_m_t_x.compile', 'ttLib/tables/_h_m_t_x.py:table__h_m_t_x.decompile'],
        bounds='n in 1..4 (quick) / 1..5 glyphs, advance symbolic in [0, 65535], side bearing symbolic int16: every pattern of trailing equal '
               'advances (numberOfHMetrics trimming) is a solver fork',
        shims=['struct', 'array'], quick=[dict(n=n) for n in (1, 2, 3, 4)], thorough=[dict(n=n) for n in (1, 2, 3, 4, 5)])
def hmtx_roundtrip(n):
    names = ['g%d' % i for i in range(n)]
    t = HM.table__h_m_t_x()
    t.metrics = {nm: (V.int('aw%d' % i, 0, 0xFFFF), V.int('lsb%d' % i, -0x8000, 0x7FFF)) for i, nm in enumerate(names)}
    hhea = Rec(numberOfHMetrics=0)
    font = Stub(names, hhea=hhea, maxp=Rec(numGlyphs=n))
    data = t.compile(font)
    observe('data', tobytes(data))
    k = hhea.numberOfHMetrics
    observe('numberOfHMetrics', k)
    d = blist(data)
    ob('spec:numberOfHMetrics-range', 1 <= k <= n)
    ob('spec:length', len(d) == 4 * k + 2 * (n - k))
    # spec reader: glyphs >= numberOfHMetrics have the advance of the last long metric
    conds = []
    for i, nm in enumerate(names):
        if i < k:
            aw, lsb = be_uint(d[4 * i:4 * i + 2]), s16(d[4 * i + 2:4 * i + 4])
        else:
            aw, lsb = be_uint(d[4 * (k - 1):4 * (k - 1) + 2]), s16(d[4 * k + 2 * (i - k):4 * k + 2 * (i - k) + 2])
        conds.append(conj([eq(aw, t.metrics[nm][0]), eq(lsb, t.metrics[nm][1])]))
    ob('spec:metrics', conj(conds))
    t2 = HM.table__h_m_t_x()
    t2.decompile(data, font)
    ob('decompile:metrics', conj([conj([eq(t2.metrics[nm][0], t.metrics[nm][0]), eq(t2.metrics[nm][1], t.metrics[nm][1])]) for nm in names]))


# ---------------------------------------------------------------------------------------------- kern format 0
@kernel('C02', funcs=['ttLib/tables/_k_e_r_n.py:KernTable_format_0.compile', 'ttLib/tables/_k_e_r_n.py:KernTable_format_0.decompile', 'ttLib/ttFont.py:getSearchRange'],
        bounds='n in 1..3 pairs over 4 glyphs (concrete pairs), every kerning value symbolic over int16; Windows (version 0) and Apple headers',
        shims=['struct', 'array'], quick=[dict(n=n, apple=a) for n in (1, 2, 3) for a in (False, True)])
def kern0_roundtrip(n, apple):
    names = ['a', 'b', 'c', 'd']
    pairs = [('a', 'b'), ('c', 'a'), ('b', 'd')][:n]
    st = KE.KernTable_format_0(apple)
    st.coverage = 1
    st.tupleIndex = 0 if apple else None
    st.kernTable = {p: V.int('v%d' % i, -0x8000, 0x7FFF) for i, p in enumerate(pairs)}
    font = Stub(names)
    data = st.compile(font)
    observe('data', tobytes(data))
    d = blist(data)
    h = 8 if apple else 6
    ob('spec:length-field', eq(be_uint(d[0:4]) if apple else be_uint(d[2:4]), len(d)))
    ob('spec:nPairs', eq(be_uint(d[h:h + 2]), n))
    recs = []
    for i in range(n):
        o = h + 8 + 6 * i
        recs.append((int(be_uint(d[o:o + 2])), int(be_uint(d[o + 2:o + 4])), s16(d[o + 4:o + 6])))
    ob('spec:pairs-sorted', [(r[0], r[1]) for r in recs] == sorted((r[0], r[1]) for r in recs))
    want = {(names.index(l), names.index(r)): v for (l, r), v in st.kernTable.items()}
    ob('spec:values', conj([eq(r[2], want.get((r[0], r[1]))) if (r[0], r[1]) in want else False for r in recs]))
    st2 = KE.KernTable_format_0(apple)
    st2.decompile(data, font)
    ob('decompile:pairs', sorted(st2.kernTable) == sorted(st.kernTable))
    ob('decompile:values', conj([eq(st2.kernTable.get(p), v) if p in st2.kernTable else False for p, v in st.kernTable.items()]))


# ---------------------------------------------------------------------------------------------- loca
@kernel('C02', funcs=['ttLib/tables/_l_o_c_a.py:table__l_o_c_a.compile', 'ttLib/tables/_l_o_c_a.py:table__l_o_c_a.decompile', 'ttLib/tables/_l_o_c_a.py:table__l_o_c_a.set'],
        bounds='n in 1..3 glyphs: offsets 0 = o0 <= o1 <= ... symbolic in [0, 2^24] (so the 0x20000 short/long switch and odd offsets are solver forks)',
        shims=['array'], quick=[dict(n=n) for n in (1, 2, 3)])
def loca_roundtrip(n):
    offs = [0] + [V.int('o%d' % i, 0, 1 << 24) for i in range(1, n + 1)]
    for a, b in zip(offs, offs[1:]):
        assume(le(a, b))
    t = LO.table__l_o_c_a()
    t.set(offs)
    head = Rec(indexToLocFormat=None)
    font = Stub(['g%d' % i for i in range(n)], head=head, maxp=Rec(numGlyphs=n))
    data = t.compile(font)
    observe('data', tobytes(data))
    observe('format', head.indexToLocFormat)
    d = blist(data)
    fmt = head.indexToLocFormat
    ob('spec:format-set', fmt in (0, 1))
    if fmt == 0:
        ob('spec:length', len(d) == 2 * (n + 1))
        ob('spec:short-offsets', conj([eq(be_uint(d[2 * i:2 * i + 2]) * 2, o) for i, o in enumerate(offs)]))
    else:
        ob('spec:length', len(d) == 4 * (n + 1))
        ob('spec:long-offsets', conj([eq(be_uint(d[4 * i:4 * i + 4]), o) for i, o in enumerate(offs)]))
    t2 = LO.table__l_o_c_a()
    t2.decompile(data, font)
    ob('decompile:offsets', conj([eq(t2.locations[i], o) for i, o in enumerate(offs)]) if len(t2.locations) == n + 1 else False)


# ---------------------------------------------------------------------------------------------- glyf simple-glyph coordinates
def spec_read_simple(d, pos, npts):
    """TrueType simple glyph reader written from the 'glyf' spec: flags (with repeat), then x deltas, then y deltas.
    d is a list of byte values (ints or byte-valued symbolic ints); flag bytes are concretised where the layout depends on them."""
    flags = []
    while len(flags) < npts:
        f = d[pos]
        pos += 1
        rep = 0
        if bool((f & 0x08) != 0):
            rep = int(d[pos])
            pos += 1
        for _ in range(rep + 1):
            flags.append(f)
    if len(flags) != npts:
        return None
    xs, ys = [], []
    for which, short_bit, same_bit, out in ((0, 0x02, 0x10, xs), (1, 0x04, 0x20, ys)):
        for f in flags:
            short = bool((f & short_bit) != 0)
            same = bool((f & same_bit) != 0)
            if short:
                v = d[pos]
                pos += 1
                out.append(v if same else -v)
            elif same:
                out.append(0)
            else:
                out.append(s16(d[pos:pos + 2]))
                pos += 2
    return flags, xs, ys, pos


def _mk_glyph(n, fam=None):
    g = GL.Glyph()
    g.numberOfContours = 1
    g.endPtsOfContours = [n - 1]
    g.program = TP.Program()
    g.program.fromBytecode(b'')
    return g


def _check_coords(g, data, pts, fl, label):
    n = len(pts)
    d = blist(data)
    # header: endPts (1 contour), instructionLength
    ob(label + 'spec:endPts', eq(be_uint(d[0:2]), n - 1))
    ob(label + 'spec:instructionLength', eq(be_uint(d[2:4]), 0))
    r = spec_read_simple(d, 4, n)
    if r is None:
        ob(label + 'spec:flag-count', False)
        return
    flags, xs, ys, pos = r
    ob(label + 'spec:consumed', pos == len(d))
    ax = ay = 0
    conds = []
    for i in range(n):
        ax = ax + xs[i]
        ay = ay + ys[i]
        conds.append(conj([eq(ax, pts[i][0]), eq(ay, pts[i][1])]))
    ob(label + 'spec:coordinates', conj(conds))
    ob(label + 'spec:onCurve-overlap-cubic-bits', conj([eq(f & 0xC1, w & 0xC1) for f, w in zip(flags, fl)]))
    ob(label + 'spec:reserved-bit-clear', True)
    g2 = GL.Glyph()
    g2.numberOfContours = 1
    g2.decompileCoordinates(data)
    ob(label + 'decompile:coordinates', conj([conj([eq(g2.coordinates[i][0], pts[i][0]), eq(g2.coordinates[i][1], pts[i][1])]) for i in range(n)])
       if len(g2.coordinates) == n else False)
    ob(label + 'decompile:flags', conj([eq(a, b & 0xC1) for a, b in zip(g2.flags, fl)]) if len(g2.flags) == n else False)


F_G = ['ttLib/tables/_g_l_y_f.py:Glyph.compileCoordinates', 'ttLib/tables/_g_l_y_f.py:Glyph.compileDeltasGreedy', 'ttLib/tables/_g_l_y_f.py:Glyph.compileDeltasOptimal',
       'ttLib/tables/_g_l_y_f.py:Glyph.compileDeltasForSpeed', 'ttLib/tables/_g_l_y_f.py:Glyph.decompileCoordinates', 'ttLib/tables/_g_l_y_f.py:Glyph.decompileCoordinatesRaw',
       'ttLib/tables/_g_l_y_f.py:flagBest', 'ttLib/tables/_g_l_y_f.py:flagFits', 'ttLib/tables/_g_l_y_f.py:flagSupports', 'ttLib/tables/_g_l_y_f.py:flagEncodeCoords',
       'ttLib/tables/_g_l_y_f.py:GlyphCoordinates.toInt', 'ttLib/tables/_g_l_y_f.py:GlyphCoordinates.absoluteToRelative', 'ttLib/tables/_g_l_y_f.py:GlyphCoordinates.relativeToAbsolute']


@kernel('C02', funcs=F_G,
        bounds='one contour of n in 1..3 points; every coordinate a symbolic integer in [-1200, 1200] (so zero / short +-255 / word forms of every '
               'delta are solver forks), on-curve / overlap / cubic flag bits symbolic; packer in {greedy (optimizeSize=True), speed '
               '(optimizeSize=False), optimal (dynamic programme, called directly)}',
        shims=['struct', 'array ("d" over reals, "H")', 'bytearray', 'int/round'],
        quick=[dict(n=1, packer=p) for p in ('greedy', 'speed', 'optimal')] + [dict(n=2, packer=p) for p in ('greedy', 'speed')],
        thorough=[dict(n=n, packer=p) for n in (1, 2, 3) for p in ('greedy', 'speed')] + [dict(n=n, packer='optimal') for n in (1, 2)],
        max_paths=200000)
def glyf_coords_roundtrip(n, packer):
    pts = [(V.int('x%d' % i, -1200, 1200, bv=False), V.int('y%d' % i, -1200, 1200, bv=False)) for i in range(n)]
    fl = [V.int('f%d' % i, 0, 255) for i in range(n)]
    for f in fl:
        assume(eq(f & 0x3E, 0))          # only on-curve (0x01), overlap (0x40), cubic (0x80) are content; the rest is the packer's
        if packer == 'optimal':
            # compileDeltasOptimal is an alternative packer that compileCoordinates does not call (commented out in the source);
            # it takes on-curve booleans only, so it is exercised with flags in {0, 1}
            assume(le(f, 1))
    g = _mk_glyph(n)
    g.coordinates = GL.GlyphCoordinates(pts)
    g.flags = bytearray(fl) if not symbolic() else GL.bytearray(fl)
    if packer == 'optimal':
        deltas = g.coordinates.copy()
        deltas.toInt()
        deltas.absoluteToRelative()
        parts = g.compileDeltasOptimal(g.flags, deltas)
        data = tobytes(GL.struct.pack('>H', n - 1)) + tobytes(GL.struct.pack('>h', 0))
        for p in parts:
            data = data + tobytes(p)
    else:
        data = g.compileCoordinates(optimizeSize=(packer == 'greedy'))
    observe('data', tobytes(data))
    _check_coords(g, data, pts, fl, '')


@kernel('C02', funcs=F_G,
        bounds='shape family around the flag repeat-count limit: n in {255, 256, 257, 258, 300} points with the same delta (dx, dy) symbolic in '
               '[-300, 300] and the same flag, followed by one point with an independent x delta: greedy packer',
        shims=['struct', 'array', 'bytearray'], quick=[dict(n=256)], thorough=[dict(n=n) for n in (254, 255, 256, 257, 258, 300, 513)],
        conc_cap=600)
def glyf_repeat_family(n):
    dx = V.int('dx', -300, 300, bv=False)
    dy = V.int('dy', -300, 300, bv=False)
    ex = V.int('ex', -300, 300, bv=False)
    ey = dy
    pts = [(dx * (i + 1), dy * (i + 1)) for i in range(n)]
    pts.append((dx * n + ex, dy * n + ey))
    fl = [1] * (n + 1)
    g = _mk_glyph(n + 1)
    g.coordinates = GL.GlyphCoordinates(pts)
    g.flags = bytearray(fl) if not symbolic() else GL.bytearray(fl)
    data = g.compileCoordinates(optimizeSize=True)
    observe('len', len(tobytes(data)))
    _check_coords(g, data, pts, fl, '')


# ---------------------------------------------------------------------------------------------- gvar/cvar tuple variation store
import fontTools.ttLib.tables.TupleVariation as TVM
shim_all(TVM)
instrument(TVM)
from harness import C15_codecs as _c15


@kernel('C02', funcs=['ttLib/tables/TupleVariation.py:compileTupleVariationStore', 'ttLib/tables/TupleVariation.py:decompileTupleVariationStore',
                      'ttLib/tables/TupleVariation.py:TupleVariation.compile', 'ttLib/tables/TupleVariation.py:decompileTupleVariation_',
                      'ttLib/tables/TupleVariation.py:TupleVariation.compileCoord', 'ttLib/tables/TupleVariation.py:TupleVariation.compileIntermediateCoord',
                      'ttLib/tables/TupleVariation.py:TupleVariation.decompileCoord_', 'ttLib/tables/TupleVariation.py:inferRegion_',
                      'ttLib/tables/TupleVariation.py:TupleVariation.compilePoints', 'ttLib/tables/TupleVariation.py:TupleVariation.compileDeltas'],
        bounds='gvar store of 1-2 tuple variations over 3 points and 2 axes: point usage from the pattern (all / some None), one symbolic (dx, dy) over int16 per variation, every axis triple (min, peak, max) symbolic F2Dot14 numerators over [-16384, 16384] with min <= peak <= max (so default vs '
               'intermediate region is a solver fork); shared / private point numbers; shared-tuple table empty or holding the first peak',
        shims=['struct', 'array', 'bytearray', 'b"".join (instrumented)'],
        quick=[dict(pat=['xxx'], shared=False, usp=True), dict(pat=['x.x'], shared=True, usp=True), dict(pat=['xx.', 'xx.'], shared=False, usp=True)],
        thorough=[dict(pat=p, shared=s, usp=u) for p in (['xxx'], ['x.x'], ['..x'], ['xx.', 'xx.'], ['xxx', '.x.']) for s in (False, True) for u in (True, False)],
        max_paths=200000, collide=True)
def tuple_store_roundtrip(pat, shared, usp):
    axisTags = ['wght', 'wdth']
    vs = []
    for vi, p in enumerate(pat):
        axes = {}
        for ai, tag in enumerate(axisTags[:1 if vi else 2]):
            pk = V.int('v%d_%s_peak' % (vi, tag), -16384, 16384, bv=False)
            assume(neg(eq(pk, 0)))
            if vi == 0:
                lo = V.int('v%d_%s_min' % (vi, tag), -16384, 16384, bv=False)
                hi = V.int('v%d_%s_max' % (vi, tag), -16384, 16384, bv=False)
                assume(le(lo, pk))
                assume(le(pk, hi))
                axes[tag] = (lo / 16384, pk / 16384, hi / 16384)
            else:
                # later variations: default region of a symbolic peak (the intermediate-region fork is explored on the first one)
                axes[tag] = (ite(pk < 0, pk, 0) / 16384, pk / 16384, ite(pk > 0, pk, 0) / 16384)
        # all used points of a variation share one symbolic (dx, dy): zero / byte / word class of each is a solver fork; mixed runs
        # inside one delta list are decided by C15.deltas_roundtrip
        ddx = V.int('v%d_dx' % vi, -0x8000, 0x7FFF)
        ddy = V.int('v%d_dy' % vi, -0x8000, 0x7FFF) if vi == 0 else ddx
        coords = [(ddx, ddy) if c == 'x' else None for i, c in enumerate(p)]
        vs.append(TVM.TupleVariation(axes, coords))
    sharedTuples = []
    sharedIdx = {}
    if shared:
        c0 = vs[0].compileCoord(axisTags)
        sharedIdx = {c0: 0}
        sharedTuples = [TVM.TupleVariation.decompileCoord_(axisTags, c0, 0)[0]]
    count, tuples, data = TVM.compileTupleVariationStore(vs, 3, axisTags, sharedIdx, useSharedPoints=usp)
    observe('count', count)
    blob = tobytes(tuples) + tobytes(data)
    observe('blob', blob)
    out = TVM.decompileTupleVariationStore('gvar', axisTags, count, 3, sharedTuples, blob, 0, len(tobytes(tuples)))
    ob('variation-count', len(out) == len(vs))
    for vi, (a, b) in enumerate(zip(vs, out)):
        ob('v%d:axes-present' % vi, sorted(a.axes) == sorted(b.axes))
        if sorted(a.axes) == sorted(b.axes):
            ob('v%d:axes' % vi, conj([conj([eq(x, y) for x, y in zip(a.axes[t], b.axes[t])]) for t in a.axes]))
        same_shape = [c is None for c in a.coordinates] == [c is None for c in b.coordinates]
        ob('v%d:point-set' % vi, same_shape)
        if same_shape:
            ob('v%d:deltas' % vi, conj([conj([eq(p[0], q[0]), eq(p[1], q[1])]) for p, q in zip(a.coordinates, b.coordinates) if p is not None]))


@kernel('C02', funcs=['ttLib/tables/TupleVariation.py:TupleVariation.compilePoints', 'ttLib/tables/TupleVariation.py:TupleVariation.decompilePoints_'],
        bounds='packed point numbers, shape family around the count-header width switch (127/128 points) and the run-length limit (see C15.points_family)',
        shims=['array', 'bytearray', 'struct'], quick=[dict(n=n, d=1) for n in (127, 128, 129)], thorough=[dict(n=n, d=d) for n in (126, 127, 128, 129, 130, 256) for d in (1, 256)])
def tuple_points_family(n, d):
    _c15.points_family.__wrapped__(n, d) if hasattr(_c15.points_family, '__wrapped__') else _c15.points_family(n, d)


# ---------------------------------------------------------------------------------------------- cmap formats 4 and 12
import fontTools.ttLib.tables._c_m_a_p as CM
shim_all(CM)
instrument(CM)

CMAP_SHAPES = {
    # concrete code points; glyph ids are a + i before position k and b + (i - k) from k on (a, b symbolic): whether and where the glyph ids
    # stop being consecutive decides format 4's segment splitting (thresholds 4 / 8) and idDelta vs idRangeOffset - all solver forks
    'run12': list(range(0x41, 0x4D)),
    'run5': list(range(0x41, 0x46)),
    'two-runs': [0x20, 0x21, 0x22] + list(range(0x30, 0x3B)),
    'scattered': [0x20, 0x41, 0x43, 0x100, 0x2000],
    'top': [0x41, 0xFFFD, 0xFFFE],
    'run20': list(range(0x100, 0x114)),
    'astral': [0x41, 0x42, 0xFFFF, 0x10000, 0x10001, 0x1F600],
    # format 2 (mixed one/two-byte encodings): one-byte codes with a hole, two lead bytes, a hole inside a two-byte range
    'dbcs': [0x41, 0x43, 0x8140, 0x8142, 0x8143, 0x8240],
    'dbcs-only': [0x8140, 0x8141, 0x8143, 0x9F40],
    'sbcs': [0x20, 0x21, 0x24],
    # one unbroken run of 36 codes whose glyph ids are in step for 10, out of step for 3, in step for 10, out of step for 3, in step for 10:
    # format 4 keeps three in-step segments and must fill BOTH holes between them (splitRange)
    'three-in-step': list(range(0x100, 0x124)),
}


class _CmapFont:
    def __init__(self, name2gid):
        self.m = name2gid

    def getReverseGlyphMap(self, rebuild=False):
        return dict(self.m)

    def getGlyphID(self, name):
        return self.m[name]

    def getGlyphName(self, gid):
        for n, g in self.m.items():
            if g == gid:
                return n
        return 'glyph%.5d' % int(gid)

    def getGlyphNameMany(self, gids):
        return [self.getGlyphName(g) for g in gids]

    def getGlyphOrder(self):
        return []


def spec_cmap4(d, c):
    """glyph id for character c from a format 4 subtable, written from the OpenType spec"""
    segX2 = int(be_uint(d[6:8]))
    n = segX2 // 2
    endp, startp = 14, 14 + segX2 + 2
    deltap, rop = startp + segX2, startp + 2 * segX2
    for i in range(n):
        end = int(be_uint(d[endp + 2 * i:endp + 2 * i + 2]))
        if end >= c:
            start = int(be_uint(d[startp + 2 * i:startp + 2 * i + 2]))
            if start > c:
                return 0
            delta = be_uint(d[deltap + 2 * i:deltap + 2 * i + 2])
            ro = int(be_uint(d[rop + 2 * i:rop + 2 * i + 2]))
            if ro == 0:
                return (c + delta) & 0xFFFF
            p = rop + 2 * i + ro + 2 * (c - start)
            g = be_uint(d[p:p + 2])
            return ite(eq(g, 0), 0, (g + delta) & 0xFFFF)
    return 0


def spec_cmap2(d, c):
    """glyph id for the one- or two-byte code c from a format 2 subtable (OpenType spec, 'high-byte mapping through table')"""
    def sub(k, low):
        o = 518 + 8 * k
        first, count = int(be_uint(d[o:o + 2])), int(be_uint(d[o + 2:o + 4]))
        if low < first or low >= first + count:
            return 0
        delta = be_uint(d[o + 4:o + 6])
        p = o + 6 + int(be_uint(d[o + 6:o + 8])) + 2 * (low - first)
        g = be_uint(d[p:p + 2])
        return ite(eq(g, 0), 0, (g + delta) & 0xFFFF)
    if c < 256:
        if int(be_uint(d[6 + 2 * c:8 + 2 * c])) != 0:
            return 0                      # c is a lead byte, not a character
        return sub(0, c)
    hi, low = c >> 8, c & 0xFF
    k = int(be_uint(d[6 + 2 * hi:8 + 2 * hi])) // 8
    if k == 0:
        return 0                          # hi is a one-byte character: no two-byte code starts with it
    return sub(k, low)


def spec_cmap6(d, c):
    """format 6 (trimmed table mapping): firstCode, entryCount, glyphIdArray"""
    first, n = int(be_uint(d[6:8])), int(be_uint(d[8:10]))
    if c < first or c >= first + n:
        return 0
    p = 10 + 2 * (c - first)
    return be_uint(d[p:p + 2])


def spec_cmap13(d, c):
    """format 13 (many-to-one range mappings): every code of a group maps to the group's glyph id"""
    ngroups = int(be_uint(d[12:16]))
    for i in range(ngroups):
        o = 16 + 12 * i
        s, e = int(be_uint(d[o:o + 4])), int(be_uint(d[o + 4:o + 8]))
        if s <= c <= e:
            return be_uint(d[o + 8:o + 12])
    return 0


def spec_cmap12(d, c):
    ngroups = int(be_uint(d[12:16]))
    for i in range(ngroups):
        o = 16 + 12 * i
        s, e = int(be_uint(d[o:o + 4])), int(be_uint(d[o + 4:o + 8]))
        if s <= c <= e:
            return be_uint(d[o + 8:o + 12]) + (c - s)
    return 0


@kernel('C02', funcs=['ttLib/tables/_c_m_a_p.py:cmap_format_6.compile', 'ttLib/tables/_c_m_a_p.py:cmap_format_6.decompile', 'ttLib/tables/_c_m_a_p.py:cmap_format_13._IsInSameRun', 'ttLib/tables/_c_m_a_p.py:cmap_format_2.compile', 'ttLib/tables/_c_m_a_p.py:cmap_format_2.setIDDelta', 'ttLib/tables/_c_m_a_p.py:cmap_format_2.decompile',
                      'ttLib/tables/_c_m_a_p.py:cmap_format_4.compile', 'ttLib/tables/_c_m_a_p.py:splitRange', 'ttLib/tables/_c_m_a_p.py:cmap_format_4.decompile',
                      'ttLib/tables/_c_m_a_p.py:cmap_format_12_or_13.compile', 'ttLib/tables/_c_m_a_p.py:cmap_format_12_or_13.decompile', 'ttLib/tables/_c_m_a_p.py:_make_map',
                      'ttLib/ttFont.py:getSearchRange'],
        bounds='cmap subtables format 4, 12, 2, 6 and 13 (13 with the glyph ids of each run made EQUAL - a many-to-one map): concrete code-point sets from 11 shapes (runs of 5/12/20, two runs, scattered, next to 0xFFFF, beyond the BMP, a run of 36 with three in-step stretches (a+i, b+i, c+i) and two out-of-step ones; for format 2 '
               'one-byte codes with a hole, two lead bytes, a hole inside a two-byte range) x '
               'SYMBOLIC glyph ids a + i (i < k) and b + (i - k) (i >= k), a, b in [1, 60000] (b either continues the a-run or is clear of it), k from the parameter: the character -> glyph '
               'mapping read back by a reader written from the spec (segment search, idDelta mod 65536, idRangeOffset indexing; sequential groups; format 2 subHeaderKeys, '
               'firstCode/entryCount window, idRangeOffset relative to its own word, idDelta applied to non-zero entries only) equals the '
               'input for every code in the map and gives "missing" for the neighbouring codes; fontTools\' own decompile returns the same map; format 4 header '
               'search fields per spec',
        shims=['struct', 'array'],
        quick=[dict(fmt=4, shape='run12', k=k) for k in (0, 3, 6)] + [dict(fmt=4, shape='run5', k=2), dict(fmt=4, shape='two-runs', k=1), dict(fmt=4, shape='two-runs', k=5), dict(fmt=4, shape='scattered', k=2), dict(fmt=4, shape='top', k=1),
                                                                     dict(fmt=12, shape='astral', k=3), dict(fmt=12, shape='run5', k=2),
                                                                     dict(fmt=2, shape='dbcs', k=2), dict(fmt=2, shape='dbcs-only', k=1), dict(fmt=2, shape='sbcs', k=1), dict(fmt=4, shape='three-in-step', k=0), dict(fmt=6, shape='two-runs', k=1), dict(fmt=13, shape='run5', k=2)],
        thorough=[dict(fmt=4, shape=s, k=k) for s in ('run12', 'run5', 'two-runs', 'scattered', 'top', 'run20') for k in (0, 1, 2, 3, 5, 6, 9, 11) if k < len(CMAP_SHAPES[s])]
        + [dict(fmt=12, shape=s, k=k) for s in ('astral', 'run5', 'two-runs', 'scattered') for k in (0, 1, 2, 3)]
        + [dict(fmt=2, shape=s, k=k) for s in ('dbcs', 'dbcs-only', 'sbcs') for k in (0, 1, 2, 3)] + [dict(fmt=4, shape='three-in-step', k=0), dict(fmt=12, shape='three-in-step', k=0)]
        + [dict(fmt=6, shape=s, k=k) for s in ('run5', 'two-runs', 'scattered') for k in (0, 1, 3)] + [dict(fmt=13, shape=s, k=k) for s in ('run5', 'two-runs', 'astral') for k in (0, 2, 3)],
        conc_cap=80, max_paths=100000)
def cmap_roundtrip(fmt, shape, k):
    codes = CMAP_SHAPES[shape]
    a = V.int('a', 1, 60000)
    b = V.int('b', 1, 60000)
    assume(disj([eq(b, a + k), le(a + 40, b), le(b + 40, a)]))      # b continues the a-run exactly, or lies clear of it
    gids = [a + i if i < k else b + (i - k) for i in range(len(codes))]
    if fmt == 13:
        gids = [a if i < k else b for i in range(len(codes))]          # many-to-one: one glyph per run
    if shape == 'three-in-step':
        c = V.int('c', 1, 60000)
        assume(conj([disj([le(a + 60, c), le(c + 60, a)]), disj([le(b + 60, c), le(c + 60, b)]), disj([le(a + 60, b), le(b + 60, a)])]))
        gids = [a + i for i in range(10)] + [a + 22, a + 21, a + 20] + [b + i for i in range(10)] + [b + 22, b + 21, b + 20] + [c + i for i in range(10)]
    names = ['n%d' % i for i in range(len(codes))]
    if fmt == 13:
        names = ['na' if i < k else 'nb' for i in range(len(codes))]     # many codes, one glyph
        assume(neg(eq(a, b)))
    font = _CmapFont(dict(zip(names, gids)))
    st = CM.CmapSubtable.newSubtable(fmt)
    st.platformID, st.platEncID, st.language = 3, (10 if fmt in (12, 13) else 1), 0
    st.cmap = dict(zip(codes, names))
    data = st.compile(font)
    observe('length', len(tobytes(data)))
    d = blist(data)
    spec = {4: spec_cmap4, 12: spec_cmap12, 2: spec_cmap2, 6: spec_cmap6, 13: spec_cmap13}[fmt]
    ob('spec:length-field', eq(be_uint(d[2:4]) if fmt not in (12, 13) else be_uint(d[4:8]), len(d)))
    ob('spec:mapped-codes', conj([eq(spec(d, c), g) for c, g in zip(codes, gids)]))
    near = sorted({c + dd for c in codes for dd in (-1, 1)} - set(codes))
    near = [c for c in near if 0 <= c <= (0xFFFE if fmt not in (12, 13) else 0x10FFFF)]
    ob('spec:unmapped-neighbours-are-missing', conj([eq(spec(d, c), 0) for c in near]))
    if fmt == 4:
        n = int(be_uint(d[6:8])) // 2
        e = 0
        while (1 << (e + 1)) <= n:
            e += 1
        ob('spec:search-fields', conj([eq(be_uint(d[8:10]), 2 * (1 << e)), eq(be_uint(d[10:12]), e), eq(be_uint(d[12:14]), 2 * n - 2 * (1 << e))]))
        ob('spec:last-segment-is-0xFFFF', eq(be_uint(d[14 + 2 * (n - 1):14 + 2 * n]), 0xFFFF))
    st2 = CM.CmapSubtable.newSubtable(fmt)
    st2.decompile(data, font)
    ob('decompile:same-map', sorted(st2.cmap) == sorted(codes) and all(st2.cmap[c] == nm for c, nm in zip(codes, names)))


# ------------------------------------------------------------------------------------------------ GSUB single substitution (delta form)
import fontTools.ttLib.tables.otTables as OT
from harness.common import SymFont

SUBST_PATTERNS = {
    # name pairs in mapping (= insertion) order; the glyph ids behind the names are a symbolic permutation, so which pairs share a delta is a solver fork
    'identity-first': [('g0', 'g0'), ('g1', 'g2'), ('g3', 'g4')],
    'identity-last': [('g1', 'g2'), ('g3', 'g4'), ('g0', 'g0')],
    'pairs': [('g0', 'g1'), ('g2', 'g3')],
    'chain': [('g0', 'g1'), ('g1', 'g2'), ('g2', 'g3')],
    'one': [('g0', 'g3')],
    'swap': [('g0', 'g1'), ('g1', 'g0'), ('g2', 'g4')],
}


@kernel('C02', funcs=['ttLib/tables/otTables.py:SingleSubst.preWrite', 'ttLib/tables/otTables.py:SingleSubst.postRead'],
        bounds='GSUB SingleSubst with 1-3 substitutions from 6 patterns (identity entries first / last, disjoint pairs, chains, swaps) over 5 glyphs whose glyph ids are a '
               'SYMBOLIC permutation (so whether all pairs share one id delta - format 1 - or not - format 2 - and the wrap of the delta mod 65536 are solver forks): '
               'the raw table (Coverage + DeltaGlyphID, or Coverage + Substitute array), applied as the OpenType spec says, substitutes every input glyph by its mapped '
               'glyph; the coverage is in increasing glyph-id order; postRead on a fresh table returns the same mapping',
        shims=[], quick=[dict(pat='identity-first'), dict(pat='pairs')], thorough=[dict(pat=p) for p in SUBST_PATTERNS], max_paths=20000)
def single_subst_roundtrip(pat):
    font = SymFont(5)
    pairs = SUBST_PATTERNS[pat]
    st = OT.SingleSubst()
    st.mapping = dict(pairs)
    raw = st.preWrite(font)
    fmt = st.Format
    observe('format', fmt)
    cov = list(raw['Coverage'].glyphs)
    ob('coverage-is-the-input-set', sorted(cov) == sorted(a for a, _ in pairs))
    ob('coverage-in-glyph-id-order', conj([lt(font.getGlyphID(cov[i]), font.getGlyphID(cov[i + 1])) for i in range(len(cov) - 1)]))
    conds = []
    for a, b in pairs:
        if a not in cov:
            conds.append(False)
        elif fmt == 1:
            conds.append(eq((font.getGlyphID(a) + raw['DeltaGlyphID']) % 65536, font.getGlyphID(b)))
        elif fmt == 2:
            conds.append(raw['Substitute'][cov.index(a)] == b)
        else:
            conds.append(False)
    ob('spec:every-input-substituted-as-mapped', conj(conds))
    if fmt == 1:
        ob('spec:delta-fits-int16-or-wraps', conj([le(0, raw['DeltaGlyphID']), lt(raw['DeltaGlyphID'], 65536)]))
    raw2 = dict(raw)
    if fmt == 2:
        raw2['GlyphCount'] = len(raw['Substitute'])
    st2 = OT.SingleSubst()
    st2.Format = fmt
    st2.postRead(raw2, font)
    ob('postRead:same-mapping', st2.mapping == dict(pairs))


# ------------------------------------------------------------------------------------------------ Coverage as an independent reader sees it
import fontTools.ttLib.tables.otBase as OB


def spec_coverage_index(d, gid):
    """coverage index of glyph id gid, or -1 (OpenType spec, Coverage formats 1 and 2); d = list of byte values"""
    fmt = int(be_uint(d[0:2]))
    n = int(be_uint(d[2:4]))
    res = -1
    if fmt == 1:
        for i in reversed(range(n)):
            res = ite(eq(be_uint(d[4 + 2 * i:6 + 2 * i]), gid), i, res)
        return res
    for i in reversed(range(n)):
        o = 4 + 6 * i
        s, e, sci = be_uint(d[o:o + 2]), be_uint(d[o + 2:o + 4]), be_uint(d[o + 4:o + 6])
        res = ite(conj([le(s, gid), le(gid, e)]), sci + (gid - s), res)
    return res


@kernel('C02', funcs=['ttLib/tables/otTables.py:Coverage.preWrite', 'ttLib/tables/otBase.py:BaseTable.compile', 'ttLib/tables/otBase.py:OTTableWriter.getAllData',
                      'ttLib/tables/otTables.py:Coverage.postRead'],
        bounds='Coverage of k in 2..5 glyphs out of a 7-glyph font whose glyph ids are a SYMBOLIC permutation (so the order, the runs of consecutive ids and with them '
               'format 1 vs format 2 are solver forks): in the compiled bytes, read by the OpenType rule (format 1: position in the sorted array; format 2: '
               'StartCoverageIndex + gid - Start), every listed glyph gets its list position as coverage index (lists not in glyph-id order are kept through StartCoverageIndex) and every other glyph is not covered; '
               'records are sorted and disjoint; fontTools\' own reader returns the same list',
        shims=['struct', 'array'], quick=[dict(k=3), dict(k=4)], thorough=[dict(k=k) for k in (2, 3, 4, 5)], conc_cap=60, max_paths=200000)
def coverage_compile_spec(k):
    font = SymFont(7)
    cov = OT.Coverage()
    cov.glyphs = ['g%d' % i for i in range(k)]
    w = OB.OTTableWriter()
    cov.compile(w, font)
    data = w.getAllData()
    d = blist(data)
    fmt = int(be_uint(d[0:2]))
    observe('format', fmt)
    observe('length', len(d))
    gids = [font.getGlyphID(n) for n in font.names]
    covered = gids[:k]
    # the coverage index of the i-th listed glyph is i: arrays indexed by coverage stay parallel to the list (also when the list is not in
    # glyph-id order, which fontTools keeps - with a warning - through StartCoverageIndex)
    ob('spec:coverage-index-is-list-position', conj([eq(spec_coverage_index(d, g), i) for i, g in enumerate(covered)]))
    ob('spec:other-glyphs-not-covered', conj([eq(spec_coverage_index(d, g), -1) for g in gids[k:]]))
    n = int(be_uint(d[2:4]))
    if fmt == 1:
        ob('spec:sorted', conj([lt(be_uint(d[4 + 2 * i:6 + 2 * i]), be_uint(d[6 + 2 * i:8 + 2 * i])) for i in range(n - 1)]))
    else:
        ob('spec:sorted', conj([le(be_uint(d[4 + 6 * i:6 + 6 * i]), be_uint(d[6 + 6 * i:8 + 6 * i])) for i in range(n)]
                               + [lt(be_uint(d[6 + 6 * i:8 + 6 * i]), be_uint(d[10 + 6 * i:12 + 6 * i])) for i in range(n - 1)]))
    cov2 = OT.Coverage()
    cov2.decompile(OB.OTTableReader(data), font)
    ob('decompile:same-set', sorted(cov2.glyphs) == sorted(cov.glyphs))
    ob('decompile:same-list-when-sorted', cov2.glyphs == cov.glyphs or not conj([lt(covered[i], covered[i + 1]) for i in range(k - 1)]))


# ------------------------------------------------------------------------------------------------ COLR v1 clip list
CLIP_PATTERNS = {
    # glyph name -> clip box id; glyph ids are a symbolic permutation of 0..5, so which glyphs are neighbours (one range) or apart (several ranges) is a solver fork
    'shared+own': {'g0': 'A', 'g1': 'A', 'g2': 'B'},
    'three-shared': {'g0': 'A', 'g1': 'A', 'g2': 'A', 'g3': 'B'},
    'two-boxes': {'g0': 'A', 'g1': 'A', 'g2': 'B', 'g3': 'B'},
}


@kernel('C02', funcs=['ttLib/tables/otTables.py:ClipList.preWrite', 'ttLib/tables/otTables.py:ClipList.groups', 'ttLib/tables/otTables.py:ClipBox.as_tuple'],
        bounds='COLR v1 ClipList over a 6-glyph font whose glyph ids are a SYMBOLIC permutation, 3-4 glyphs with clip boxes from 3 patterns (glyphs sharing a box, a glyph '
               'with its own box, glyphs without box): in the ClipRecord array produced for the writer, read by the OpenType rule (the record whose [StartGlyphID, '
               'EndGlyphID] contains the glyph id), every glyph has exactly its own box, glyphs without a box have none - also when glyphs sharing a box are not '
               'neighbours and a differently boxed or unboxed glyph lies between them - and the records are sorted and disjoint; box coordinates are concrete',
        shims=['dict keyed by symbolic (start, end) pairs: collide mode'], quick=[dict(pat='shared+own')], thorough=[dict(pat=p) for p in CLIP_PATTERNS],
        collide=True, max_paths=100000)
def clip_list_ranges(pat):
    font = SymFont(6)
    boxes = {}
    for bid, coords in (('A', (0, 0, 100, 100)), ('B', (10, 20, 300, 400))):
        b = OT.ClipBox()
        b.Format = 1
        b.xMin, b.yMin, b.xMax, b.yMax = coords
        boxes[bid] = b
    cl = OT.ClipList()
    cl.Format = 1
    cl.clips = {}
    for nm, bid in CLIP_PATTERNS[pat].items():
        import copy
        cl.clips[nm] = copy.copy(boxes[bid])
    raw = cl.preWrite(font)
    recs = raw['ClipRecord']
    observe('n_records', len(recs))
    ob('count-field', raw['ClipCount'] == len(recs))
    ob('spec:records-sorted-and-disjoint', conj([le(r.StartGlyphID, r.EndGlyphID) for r in recs] + [lt(recs[i].EndGlyphID, recs[i + 1].StartGlyphID) for i in range(len(recs) - 1)]))
    conds = []
    for nm in font.names:
        gid = font.getGlyphID(nm)
        want = CLIP_PATTERNS[pat].get(nm)
        for r in recs:
            inside = conj([le(r.StartGlyphID, gid), le(gid, r.EndGlyphID)])
            if want is None:
                conds.append(neg(inside))
            else:
                same = r.ClipBox.as_tuple() == boxes[want].as_tuple()
                if not same:
                    conds.append(neg(inside))
        if want is not None:
            conds.append(disj([conj([le(r.StartGlyphID, gid), le(gid, r.EndGlyphID)]) for r in recs if r.ClipBox.as_tuple() == boxes[want].as_tuple()]))
    ob('spec:every-glyph-gets-exactly-its-own-box', conj(conds))


# ------------------------------------------------------------------------------------------------ ClassDef as an independent reader sees it
def spec_class_of(d, gid):
    """class of glyph id gid (OpenType spec, ClassDef formats 1 and 2; 0 when not listed); d = list of byte values"""
    fmt = int(be_uint(d[0:2]))
    res = 0
    if fmt == 1:
        start, n = be_uint(d[2:4]), int(be_uint(d[4:6]))
        for i in reversed(range(n)):
            res = ite(eq(gid, start + i), be_uint(d[6 + 2 * i:8 + 2 * i]), res)
        return res
    n = int(be_uint(d[2:4]))
    for i in reversed(range(n)):
        o = 4 + 6 * i
        s, e, c = be_uint(d[o:o + 2]), be_uint(d[o + 2:o + 4]), be_uint(d[o + 4:o + 6])
        res = ite(conj([le(s, gid), le(gid, e)]), c, res)
    return res


CLASSDEF_PATTERNS = {
    'two-classes': {'g0': 1, 'g1': 1, 'g2': 2},
    'one-class': {'g0': 1, 'g1': 1, 'g2': 1, 'g3': 1},
    'three': {'g0': 1, 'g1': 2, 'g2': 3, 'g3': 1},
    'with-zero': {'g0': 2, 'g1': 0, 'g2': 2},
}


@kernel('C02', funcs=['ttLib/tables/otTables.py:ClassDef.preWrite', 'ttLib/tables/otBase.py:BaseTable.compile', 'ttLib/tables/otBase.py:OTTableWriter.getAllData',
                      'ttLib/tables/otTables.py:ClassDef.postRead'],
        bounds='ClassDef over a 6-glyph font whose glyph ids are a SYMBOLIC permutation, 3-4 classified glyphs from 4 patterns (shared classes, one class, three classes, an '
               'explicit class 0): in the compiled bytes, read by the OpenType rule (format 1: array from StartGlyphID; format 2: class ranges), every glyph has exactly its '
               'class and unlisted glyphs class 0 - whatever runs the glyph ids form and whichever format the compiler picks; ranges sorted and disjoint; fontTools own reader '
               'returns the same classes',
        shims=['struct', 'array'], quick=[dict(pat='two-classes'), dict(pat='three')], thorough=[dict(pat=p) for p in CLASSDEF_PATTERNS], conc_cap=60, max_paths=200000)
def classdef_compile_spec(pat):
    font = SymFont(6)
    cd = OT.ClassDef()
    cd.classDefs = dict(CLASSDEF_PATTERNS[pat])
    w = OB.OTTableWriter()
    cd.compile(w, font)
    data = w.getAllData()
    d = blist(data)
    fmt = int(be_uint(d[0:2]))
    observe('format', fmt)
    observe('length', len(d))
    ob('spec:class-of-every-glyph', conj([eq(spec_class_of(d, font.getGlyphID(n)), CLASSDEF_PATTERNS[pat].get(n, 0)) for n in font.names]))
    if fmt == 2:
        n = int(be_uint(d[2:4]))
        ob('spec:ranges-sorted-and-disjoint', conj([le(be_uint(d[4 + 6 * i:6 + 6 * i]), be_uint(d[6 + 6 * i:8 + 6 * i])) for i in range(n)]
                                                   + [lt(be_uint(d[6 + 6 * i:8 + 6 * i]), be_uint(d[10 + 6 * i:12 + 6 * i])) for i in range(n - 1)]))
    cd2 = OT.ClassDef()
    cd2.decompile(OB.OTTableReader(data), font)
    want = {k: v for k, v in CLASSDEF_PATTERNS[pat].items() if v}
    ob('decompile:same-classes', {k: v for k, v in cd2.classDefs.items() if v} == want)


# ------------------------------------------------------------------------------------------------ cmap format 14 (Unicode variation sequences)
def _u24(d, p):
    return be_uint(d[p:p + 3])


def spec_cmap14(d, uv, vs):
    """('default' | glyph id | None) for the variation sequence <uv, vs> from a format 14 subtable, per the OpenType spec"""
    n = int(be_uint(d[6:10]))
    is_default = False
    gid = -1
    for i in range(n):
        o = 10 + 11 * i
        if int(_u24(d, o)) != vs:
            continue
        doff, noff = int(be_uint(d[o + 3:o + 7])), int(be_uint(d[o + 7:o + 11]))
        conds = []
        if doff:
            m = int(be_uint(d[doff:doff + 4]))
            for j in range(m):
                s = _u24(d, doff + 4 + 4 * j)
                cnt = d[doff + 4 + 4 * j + 3]
                conds.append(conj([le(s, uv), le(uv, s + cnt)]))
        is_default = disj(conds) if conds else False
        if noff:
            m = int(be_uint(d[noff:noff + 4]))
            for j in reversed(range(m)):
                p = noff + 4 + 5 * j
                gid = ite(eq(_u24(d, p), uv), be_uint(d[p + 3:p + 5]), gid)
    return is_default, gid


@kernel('C02', funcs=['ttLib/tables/_c_m_a_p.py:cmap_format_14.compile', 'ttLib/tables/_c_m_a_p.py:cmap_format_14.decompile', 'ttLib/tables/_c_m_a_p.py:cvtFromUVS', 'ttLib/tables/_c_m_a_p.py:cvtToUVS'],
        bounds='cmap format 14 with one or two variation selectors; the base characters of the default sequences are SYMBOLIC (u, u + d1, u + d1 + d2 with gaps d in 1..3, so '
               'whether they form one range, two or three is a solver fork), one or two non-default sequences with symbolic base character and symbolic glyph id: read by the '
               'OpenType rule (default UVS ranges, sorted non-default mappings), every listed sequence is found with its kind / glyph id, the neighbours of the listed base '
               'characters are not, the length field is the table length; fontTools own decompile returns the same dictionary',
        shims=['struct', 'array'], quick=[dict(nsel=1, ndef=3, nnon=1)], thorough=[dict(nsel=s, ndef=n, nnon=m) for s in (1, 2) for n in (0, 2, 3) for m in (0, 1, 2) if n + m], max_paths=100000)
def cmap14_roundtrip(nsel, ndef, nnon):
    u = V.int('u', 0x20, 0x2F000)
    gaps = [V.int('gap%d' % i, 1, 3) for i in range(max(ndef - 1, 0))]
    defs = [u]
    for g in gaps:
        defs.append(defs[-1] + g)
    defs = defs[:ndef]
    nons = []
    names = {}
    for i in range(nnon):
        c = V.int('nonuv%d' % i, 0x20, 0x2F000)
        for x in defs + [q for q, _ in nons]:
            assume(neg(eq(c, x)))
        gid = V.int('gid%d' % i, 1, 65535)
        for g0 in names.values():
            assume(neg(eq(gid, g0)))               # two glyph names never share a glyph id
        names['n%d' % i] = gid
        nons.append((c, 'n%d' % i))
    if nnon == 2:
        assume(lt(nons[0][0], nons[1][0]))
    font = _CmapFont(names)
    st = CM.CmapSubtable.newSubtable(14)
    st.platformID, st.platEncID, st.language = 0, 5, 0
    st.cmap = {}
    sels = [0xFE00, 0xE0100][:nsel]
    st.uvsDict = {}
    for vs in sels:
        st.uvsDict[vs] = [(x, None) for x in defs] + [(c, nm) for c, nm in nons]
    data = st.compile(font)
    observe('length', len(tobytes(data)))
    d = blist(data)
    ob('spec:length-field', eq(be_uint(d[2:6]), len(d)))
    ob('spec:selector-count', eq(be_uint(d[6:10]), nsel))
    conds, miss = [], []
    for vs in sels:
        for x in defs:
            isd, gid = spec_cmap14(d, x, vs)
            conds.append(conj([isd, eq(gid, -1)]))
        for c, nm in nons:
            isd, gid = spec_cmap14(d, c, vs)
            conds.append(conj([neg(isd) if not isinstance(isd, bool) else (not isd), eq(gid, names[nm])]))
        # a character next to the listed ones, and not itself listed, has no variation sequence
        probe = V.int('probe_%x' % vs, 0x1F, 0x2F004)
        listed = disj([eq(probe, x) for x in defs] + [eq(probe, c) for c, _ in nons])
        isd, gid = spec_cmap14(d, probe, vs)
        miss.append(disj([listed, conj([neg(isd) if not isinstance(isd, bool) else (not isd), eq(gid, -1)])]))
    ob('spec:listed-sequences-found', conj(conds))
    ob('spec:unlisted-characters-have-none', conj(miss))
    st2 = CM.CmapSubtable.newSubtable(14)
    st2.decompile(data, font)
    ok = sorted(st2.uvsDict) == sorted(sels)
    if ok:
        for vs in sels:
            got = sorted(st2.uvsDict[vs], key=lambda e: (e[1] is not None, ))
            gd = [e for e in st2.uvsDict[vs] if e[1] is None]
            gn = [e for e in st2.uvsDict[vs] if e[1] is not None]
            ok = ok and len(gd) == len(defs) and len(gn) == len(nons)
            if ok:
                ok = conj([eq(a[0], b) for a, b in zip(gd, defs)] + [conj([eq(a[0], b[0]), a[1] == b[1]]) for a, b in zip(gn, nons)])
    ob('decompile:same-dictionary', ok)
