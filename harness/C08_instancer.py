"""C08 kernels: instancing preserves the remaining design space (tuple-variation rebasing, merging/rounding, condition ranges)."""
from fractions import Fraction as Fr
from sx.api import kernel, shim_all, shim, V, ob, observe, eq, conj, disj, neg, assume, symbolic, le, lt, ite, real_of, collide, absdiff_le
import fontTools.varLib.instancer as INST
from fontTools.varLib.instancer import solver as S
from fontTools.varLib.instancer import NormalizedAxisTripleAndDistances as NAT
import fontTools.varLib.instancer.featureVars as FV
import fontTools.ttLib.tables.TupleVariation as TVm
import fontTools.misc.roundTools as RT
from fontTools.ttLib.tables.TupleVariation import TupleVariation
from harness.C09_variation import spec_tent, well_formed_tent

shim_all(TVm, RT, INST)
if symbolic():
    # lru_cache would hash the (symbolic) arguments: call the real function through __wrapped__
    S.rebaseTent = S.rebaseTent.__wrapped__

F = ['varLib/instancer/__init__.py:changeTupleVariationAxisLimit', 'varLib/instancer/__init__.py:changeTupleVariationsAxisLimits',
     'varLib/instancer/solver.py:rebaseTent', 'varLib/instancer/solver.py:_solve',
     'varLib/instancer/__init__.py:NormalizedAxisTripleAndDistances.renormalizeValue',
     'ttLib/tables/TupleVariation.py:TupleVariation.scaleDeltas', 'ttLib/tables/TupleVariation.py:TupleVariation.__imul__']


def value_at(variations, loc):
    """sum over variations of delta * product of spec tents (x component, y component)"""
    tx, ty = 0, 0
    for var in variations:
        s = 1
        for ax, tent in var.axes.items():
            s = s * spec_tent(loc[ax], tent, fork=True)
        d = var.coordinates[0]
        tx = tx + d[0] * s
        ty = ty + d[1] * s
    return tx, ty


@kernel('C08', funcs=F,
        bounds='one TupleVariation with delta (1, 2) [thorough: symbolic delta in [-100,100]^2] on axis wght with ANY well-formed real tent '
               '(domain as C09), optionally a second untouched axis wdth with tent (0, 1, 1) evaluated at wdth = 1/2; ANY axis limit -1 <= min <= default <= max <= 1 '
               'for wght; ANY location inside the new limits: the variations returned evaluate (spec tent product, renormalised location) '
               'exactly like the original',
        quick=[dict(second=False, symdelta=False)],
        thorough=[dict(second=False, symdelta=False), dict(second=True, symdelta=False), dict(second=False, symdelta=True)],
        max_paths=400000, timeout_ms=60000)
def tuple_axis_limit_preserves_value(second, symdelta):
    lo, pk, up = V.real('lower', -2, 2), V.real('peak', -2, 2), V.real('upper', -2, 2)
    amin, adef, amax = V.real('axisMin', -1, 1), V.real('axisDef', -1, 1), V.real('axisMax', -1, 1)
    x = V.real('x')
    well_formed_tent(lo, pk, up)
    assume(le(amin, adef))
    assume(le(adef, amax))
    assume(le(amin, x))
    assume(le(x, amax))
    if symdelta:
        d = (V.real('dx', -100, 100), V.real('dy', -100, 100))
    else:
        d = (1, 2)
    axes = {'wght': (lo, pk, up)}
    loc_old = {'wght': x}
    if second:
        axes['wdth'] = (0, 1, 1)
        loc_old['wdth'] = Fr(1, 2)
    var = TupleVariation(dict(axes), [d])
    want = value_at([TupleVariation(dict(axes), [d])], loc_old)
    limit = NAT(amin, adef, amax, 1, 1)
    out = INST.changeTupleVariationsAxisLimits([var], {'wght': limit})
    loc_new = dict(loc_old)
    loc_new['wght'] = limit.renormalizeValue(x)
    got = value_at(out, loc_new)
    observe('n-out', len(out))
    ob('x-value-preserved', eq(got[0], want[0]))
    ob('y-value-preserved', eq(got[1], want[1]))
    if second:
        ob('untouched-axis-kept', conj([('wdth' in v.axes) and conj([eq(a, b) for a, b in zip(v.axes['wdth'], (0, 1, 1))]) for v in out]))
    ob('no-peak-zero-region', conj([neg(eq(v.axes['wght'][1], 0)) for v in out if 'wght' in v.axes]))


@kernel('C08', funcs=F, bounds='a variation that does not use the limited axis, or uses it with peak 0 (explicit no-op): returned unchanged '
                               '(no-op axis removed), for any limit', quick=[dict(noop=False), dict(noop=True)])
def tuple_axis_limit_nonparticipating(noop):
    amin, adef, amax = V.real('axisMin', -1, 1), V.real('axisDef', -1, 1), V.real('axisMax', -1, 1)
    assume(le(amin, adef))
    assume(le(adef, amax))
    axes = {'wdth': (0, 1, 1)}
    if noop:
        axes['wght'] = (-1, 0, 1)
    var = TupleVariation(axes, [(3, 4)])
    out = INST.changeTupleVariationsAxisLimits([var], {'wght': NAT(amin, adef, amax, 1, 1)})
    ob('single', len(out) == 1)
    ob('delta-unchanged', conj([eq(out[0].coordinates[0][0], 3), eq(out[0].coordinates[0][1], 4)]) if len(out) == 1 else False)
    ob('axes', len(out) == 1 and list(out[0].axes.keys()) == ['wdth'])


@kernel('C08', funcs=['varLib/instancer/__init__.py:instantiateTupleVariationStore', 'varLib/instancer/__init__.py:changeTupleVariationsAxisLimits',
                       'ttLib/tables/TupleVariation.py:TupleVariation.__iadd__', 'ttLib/tables/TupleVariation.py:TupleVariation.roundDeltas',
                       'misc/roundTools.py:otRound'],
        bounds='store of 3 gvar-style variations on (wght, wdth) with concrete tents [(0,1,1)], [(0,1/2,1)], [(0,1,1) x (0,1,1)] and symbolic '
               'real deltas in [-200,200]^2 (one point); wght PINNED at a symbolic location p in [0, 1]; ANY wdth location y in [-1, 1]: '
               'default deltas + remaining store evaluate like the original at (p, y) within 1/2 per remaining (rounded) variation; '
               'no remaining variation mentions wght; regions merged by identical axes',
        shims=['dict keyed by frozenset of (tag, tent): proxies hash to one constant, equality forks (collide mode)', 'math.floor/int (otRound)'],
        quick=[dict(pin='sym')], thorough=[dict(pin='sym'), dict(pin='range')], collide=True, max_paths=400000)
def store_pin_merges_and_rounds(pin):
    ds = [(V.real('d%dx' % i, -200, 200), V.real('d%dy' % i, -200, 200)) for i in range(3)]
    tents = [{'wght': (0, 1, 1)}, {'wght': (0, Fr(1, 2), 1)}, {'wght': (0, 1, 1), 'wdth': (0, 1, 1)}]
    y = V.real('y', -1, 1)
    if pin == 'sym':
        p = V.real('p', 0, 1)
        limit = NAT(p, p, p, 1, 1)
        x = p
    else:
        lo_, hi_ = V.real('rmin', 0, 1), V.real('rmax', 0, 1)
        assume(le(lo_, hi_))
        limit = NAT(lo_, lo_, hi_, 1, 1)
        x = V.real('x', 0, 1)
        assume(le(lo_, x))
        assume(le(x, hi_))
    variations = [TupleVariation(dict(t), [d]) for t, d in zip(tents, ds)]
    want = value_at([TupleVariation(dict(t), [d]) for t, d in zip(tents, ds)], {'wght': x, 'wdth': y})
    limits = INST.NormalizedAxisLimits({'wght': limit}) if hasattr(INST, 'NormalizedAxisLimits') else {'wght': limit}
    default = INST.instantiateTupleVariationStore(variations, limits)
    dflt = default[0] if default else (0, 0)
    if pin == 'sym':
        ob('pinned-axis-gone', all('wght' not in v.axes for v in variations))
        locn = {'wdth': y}
    else:
        locn = {'wdth': y, 'wght': limit.renormalizeValue(x)}
    got = value_at(variations, locn)
    n = len(variations)
    observe('remaining', n)
    ob('x-within-rounding-budget', absdiff_le(dflt[0] + got[0], want[0], Fr(n, 2)))
    ob('y-within-rounding-budget', absdiff_le(dflt[1] + got[1], want[1], Fr(n, 2)))
    # remaining deltas are integers (rounded once), regions are distinct (merged)
    from sx.api import is_int
    ob('deltas-rounded', conj([conj([is_int(v.coordinates[0][0]), is_int(v.coordinates[0][1])]) for v in variations]))


class _Cond:
    Format = 1
    AxisIndex = 0

    def __init__(self, mn, mx):
        self.FilterRangeMinValue = mn
        self.FilterRangeMaxValue = mx


@kernel('C08', funcs=['varLib/instancer/featureVars.py:_limitFeatureVariationConditionRange',
                       'varLib/instancer/__init__.py:NormalizedAxisTripleAndDistances.renormalizeValue'],
        bounds='ANY condition range (min, max) in [-1, 1]^2 (also inverted), ANY axis limit incl. pins, ANY location x inside the new limits: '
               'the feature-variation condition holds at x in the original iff the remapped condition holds at the renormalised x '
               '(a dropped condition must be false on the whole new range)',
        quick=[dict(dist=False)], thorough=[dict(dist=False), dict(dist=True)], max_paths=200000)
def condition_range_preserved(dist):
    mn, mx = V.real('condMin', -1, 1), V.real('condMax', -1, 1)
    amin, adef, amax = V.real('axisMin', -1, 1), V.real('axisDef', -1, 1), V.real('axisMax', -1, 1)
    x = V.real('x')
    assume(le(amin, adef))
    assume(le(adef, amax))
    assume(le(amin, x))
    assume(le(x, amax))
    if dist:
        dn, dp = V.real('distNeg', Fr(1, 100), 100), V.real('distPos', Fr(1, 100), 100)
    else:
        dn, dp = 1, 1
    limit = NAT(amin, adef, amax, dn, dp)
    holds_before = conj([le(mn, x), le(x, mx)])
    r = FV._limitFeatureVariationConditionRange(_Cond(mn, mx), limit)
    if r is None:
        ob('dropped-only-if-false-everywhere', neg(holds_before))
        return
    nmin, nmax = r
    xn = limit.renormalizeValue(x)
    holds_after = conj([le(nmin, xn), le(xn, nmax)])
    ob('condition-equivalent', eq(holds_before if symbolic() else bool(holds_before), holds_after if symbolic() else bool(holds_after)))
    ob('new-range-normalised', conj([le(-1, nmin), le(nmax, 1)]))
