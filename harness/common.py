"""shared harness helpers (not a kernel module: name does not start with Cxx_)"""
from sx.api import V, assume, eq, neg, conj, symbolic, tobytes, be_uint, ite


class Rec:
    def __init__(self, **kw):
        self.__dict__.update(kw)


def blist(x):
    x = tobytes(x)
    return list(x.b) if hasattr(x, 'b') else list(x)


def s16(bs):
    v = be_uint(bs)
    return ite(v >= 0x8000, v - 0x10000, v)


def s8(b):
    return ite(b >= 0x80, b - 0x100, b)


class SymFont(dict):
    """TTFont stand-in whose glyph order is a SYMBOLIC permutation: n glyph names g0..g(n-1), glyph ids symbolic, pairwise distinct,
    each in [0, n).  Tables by tag like a TTFont.  Name -> id is a dict lookup on the concrete name; id -> name forks on equality
    with each glyph's id.  In concrete mode the ids are plain ints."""

    def __init__(self, n, prefix='gid', names=None, fixed=None, **tables):
        dict.__init__(self, tables)
        self.names = list(names) if names else ['g%d' % i for i in range(n)]
        self.n = n = len(self.names)
        self.lazy = False
        self.cfg = {}
        self.gid = {}
        for i, nm in enumerate(self.names):
            if fixed is not None and nm in fixed:
                self.gid[nm] = fixed[nm]
            else:
                self.gid[nm] = V.int('%s_%s' % (prefix, nm), 0, n - 1)
        vals = list(self.gid.values())
        for i in range(n):
            for j in range(i + 1, n):
                assume(neg(eq(vals[i], vals[j])))

    # -- TTFont API used by table code
    def getGlyphID(self, name):
        if name in self.gid:
            return self.gid[name]
        if name[:5] == 'glyph':
            return int(name[5:])
        raise KeyError(name)

    def getGlyphIDMany(self, lst):
        return [self.getGlyphID(nm) for nm in lst]

    def getGlyphName(self, gid):
        for nm, g in self.gid.items():
            if g == gid:            # forks when symbolic
                return nm
        return 'glyph%.5d' % int(gid)

    def getGlyphNameMany(self, lst):
        return [self.getGlyphName(g) for g in lst]

    def getGlyphOrder(self):
        order = [None] * self.n
        for nm, g in self.gid.items():
            order[int(g)] = nm
        return order

    def getReverseGlyphMap(self, rebuild=False):
        return dict(self.gid)

    def setGlyphOrder(self, order):
        raise NotImplementedError

    def isLoaded(self, tag):
        return tag in self

    def __len__(self):
        return self.n
