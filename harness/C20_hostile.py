"""C20 kernels: damaged or hostile input fails cleanly (parser of untrusted input modelled as an arbitrary buffer)."""
import sys
from sx.api import kernel, shim_all, shim, V, ob, observe, eq, conj, disj, neg, assume, symbolic, le, lt, tobytes
import fontTools.ttLib.sfnt as SF
import fontTools.misc.sstruct as SS
import fontTools.ttLib.ttFont as TF
import fontTools.ttLib.tables.DefaultTable as DT
from fontTools.ttLib import TTLibError, TTFont

shim_all(SF, SS, TF)


def make_file(data):
    if symbolic():
        from sx.shims import SFile
        return SFile(data)
    from io import BytesIO
    return BytesIO(bytes(data))


def build_bytes(L, magic, ntags, bound_ttc=True):
    """file of concrete length L: concrete magic, concrete tags at the directory-entry tag positions, everything else symbolic"""
    body = V.bytes('body', max(0, L - 4)) if L > 4 else b''
    data = list(magic[:L]) + list(body)
    tagpos = 12 if magic != b'wOFF' else 44
    entsize = 16 if magic != b'wOFF' else 20
    if magic != b'ttcf':
        for k in range(ntags):
            off = tagpos + entsize * k
            for j, c in enumerate(b'tg%02d' % k):
                if off + j < L:
                    data[off + j] = c
    return data


def expect_clean(fn, what):
    """run fn; the only exception type allowed to escape is TTLibError (and subclasses)"""
    try:
        fn()
    except TTLibError:
        ob(what + ':ttliberror', True)
        return False
    ob(what + ':opened', True)
    return True


F_R = ['ttLib/sfnt.py:SFNTReader.__new__', 'ttLib/sfnt.py:SFNTReader.__init__', 'ttLib/sfnt.py:readTTCHeader', 'ttLib/sfnt.py:DirectoryEntry.fromFile',
       'ttLib/sfnt.py:DirectoryEntry.loadData', 'ttLib/sfnt.py:SFNTReader.__getitem__', 'ttLib/sfnt.py:calcChecksum', 'misc/sstruct.py:unpack']


@kernel('C20', funcs=F_R,
        bounds='file of concrete length L (every truncation length in the list), first four bytes one of 0x00010000 / OTTO / true / garbage, '
               'table tags concrete, ALL other header and directory bytes symbolic (numTables, search fields, checksums, offsets, lengths); '
               'open with SFNTReader and read every table; checkChecksums in {0, 1}',
        outside=['numTables > 2 directory entries explored per run (entries are parsed by the same loop; a third entry adds no new code)',
                 'table payload decoding (C20.undecodable_*)'],
        shims=['SFile (BytesIO)', 'struct', 'range(symbolic) lazy'],
        quick=[dict(magic=m, L=L, cks=0, load=0) for m in ('0100', 'OTTO') for L in (0, 3, 4, 11, 12, 13, 27, 28, 29)]
        + [dict(magic='0100', L=44, cks=0, load=0), dict(magic='0100', L=44, cks=0, load=1)]
        + [dict(magic='true', L=28, cks=1, load=0), dict(magic='junk', L=28, cks=0, load=0)],
        thorough=[dict(magic=m, L=L, cks=c, load=0) for m in ('0100', 'OTTO', 'true') for L in list(range(0, 44)) for c in (0, 1)]
        + [dict(magic=m, L=L, cks=c, load=ld) for m in ('0100', 'OTTO') for L in (44, 45, 50, 60) for c in (0, 1) for ld in (0, 1)]
        + [dict(magic='junk', L=L, cks=0, load=0) for L in (4, 12, 28)],
        max_paths=60000, conc_cap=80)
def sfnt_open(magic, L, cks, load):
    mg = {'0100': b'\x00\x01\x00\x00', 'OTTO': b'OTTO', 'true': b'true', 'junk': b'\x07\x08\x09\x0a'}[magic]
    data = build_bytes(L, mg, 2)

    def run():
        r = SF.SFNTReader(make_file(data), checkChecksums=cks)
        tags = list(r.keys())
        # one table load per run: loads of different entries are independent (paths add up instead of multiplying)
        if load < len(tags):
            r[tags[load]]
    expect_clean(run, 'sfnt')


@kernel('C20', funcs=F_R,
        bounds='TTC: file of concrete length L starting with ttcf, ALL other bytes symbolic (version, numFonts, offset table, member directory); '
               'numFonts bounded to <= 3 by assumption (the offset table is read with a struct format built from it); fontNumber 0 and 1',
        assumptions=['numFonts <= 3 (larger counts only lengthen the offset table read)',
                     'table tags read from symbolic bytes are opaque: pairwise distinct and different from "head" (decoding never raises: ASCII failure falls back to bytes, Tag() decodes latin-1)'],
        quick=[dict(L=L, fn=0) for L in (4, 11, 12, 15, 16, 20, 28, 44)] + [dict(L=28, fn=1)],
        thorough=[dict(L=L, fn=f) for L in list(range(4, 50)) + [60] for f in (0, 1)],
        max_paths=60000, conc_cap=80, opaque_tags=True)
def ttc_open(L, fn):
    data = build_bytes(L, b'ttcf', 0)
    if L >= 12:
        # numFonts is the uint32 at offset 8
        nf = data[8:12]
        for b in nf[:3]:
            assume(eq(b, 0))
        assume(le(nf[3], 3))

    def run():
        r = SF.SFNTReader(make_file(data), fontNumber=fn)
        tags = list(r.keys())
        if tags:
            r[tags[0]]
    expect_clean(run, 'ttc')
