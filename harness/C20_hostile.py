"""C20 kernels: damaged or hostile input fails cleanly (parser of untrusted input modelled as an arbitrary buffer)."""
import sys
from sx.api import kernel, shim_all, shim, V, ob, observe, eq, conj, disj, neg, assume, symbolic, le, lt, tobytes
import fontTools.ttLib.sfnt as SF
import fontTools.misc.sstruct as SS
import fontTools.ttLib.ttFont as TF
import fontTools.ttLib.tables.DefaultTable as DT
from fontTools.ttLib import TTLibError, TTFont

shim_all(SF, SS, TF)


def make_file(data):
    if symbolic():
        from sx.shims import SFile
        return SFile(data)
    from io import BytesIO
    return BytesIO(bytes(data))


def build_bytes(L, magic, ntags, bound_ttc=True):
    """file of concrete length L: concrete magic, concrete tags at the directory-entry tag positions, everything else symbolic"""
    body = V.bytes('body', max(0, L - 4)) if L > 4 else b''
    data = list(magic[:L]) + list(body)
    tagpos = 12 if magic != b'wOFF' else 44
    entsize = 16 if magic != b'wOFF' else 20
    if magic != b'ttcf':
        for k in range(ntags):
            off = tagpos + entsize * k
            for j, c in enumerate(b'tg%02d' % k):
                if off + j < L:
                    data[off + j] = c
    return data


def expect_clean(fn, what):
    """run fn; the only exception type allowed to escape is TTLibError (and subclasses)"""
    try:
        fn()
    except TTLibError:
        ob(what + ':ttliberror', True)
        return False
    ob(what + ':opened', True)
    return True


F_R = ['ttLib/sfnt.py:SFNTReader.__new__', 'ttLib/sfnt.py:SFNTReader.__init__', 'ttLib/sfnt.py:readTTCHeader', 'ttLib/sfnt.py:DirectoryEntry.fromFile',
       'ttLib/sfnt.py:DirectoryEntry.loadData', 'ttLib/sfnt.py:SFNTReader.__getitem__', 'ttLib/sfnt.py:calcChecksum', 'misc/sstruct.py:unpack']


@kernel('C20', funcs=F_R,
        bounds='file of concrete length L (every truncation length in the list), first four bytes one of 0x00010000 / OTTO / true / garbage, '
               'table tags concrete, ALL other header and directory bytes symbolic (numTables, search fields, checksums, offsets, lengths); '
               'open with SFNTReader and read every table; checkChecksums in {0, 1}',
        outside=['numTables > 2 directory entries explored per run (entries are parsed by the same loop; a third entry adds no new code)', 'files of 60 bytes and more: a third directory entry makes the tag decode run on symbolic bytes (out of model: measured)',
                 'table payload decoding (C20.undecodable_*)'],
        shims=['SFile (BytesIO)', 'struct', 'range(symbolic) lazy'],
        quick=[dict(magic=m, L=L, cks=0, load=0) for m in ('0100', 'OTTO') for L in (0, 3, 4, 11, 12, 13, 27, 28, 29)]
        + [dict(magic='0100', L=44, cks=0, load=0), dict(magic='0100', L=44, cks=0, load=1)]
        + [dict(magic='true', L=28, cks=1, load=0), dict(magic='junk', L=28, cks=0, load=0)],
        thorough=[dict(magic=m, L=L, cks=c, load=0) for m in ('0100', 'OTTO') for L in list(range(0, 44)) for c in (0, 1) if c == 0 or L >= 12]
        + [dict(magic='true', L=L, cks=1, load=0) for L in (0, 4, 12, 13, 28, 29, 43)]
        + [dict(magic=m, L=L, cks=c, load=ld) for m in ('0100', 'OTTO') for L in (44, 45, 50) for c in (0, 1) for ld in (0, 1)]
        + [dict(magic='junk', L=L, cks=0, load=0) for L in (4, 12, 28)],
        max_paths=60000, conc_cap=80)
def sfnt_open(magic, L, cks, load):
    mg = {'0100': b'\x00\x01\x00\x00', 'OTTO': b'OTTO', 'true': b'true', 'junk': b'\x07\x08\x09\x0a'}[magic]
    data = build_bytes(L, mg, 2)

    def run():
        r = SF.SFNTReader(make_file(data), checkChecksums=cks)
        tags = list(r.keys())
        # one table load per run: loads of different entries are independent (paths add up instead of multiplying)
        if load < len(tags):
            r[tags[load]]
    expect_clean(run, 'sfnt')


@kernel('C20', funcs=F_R,
        bounds='TTC: file of concrete length L starting with ttcf, ALL other bytes symbolic (version, numFonts, offset table, member directory); '
               'numFonts bounded to <= 3 by assumption (the offset table is read with a struct format built from it); fontNumber 0 and 1',
        assumptions=['numFonts <= 3 (larger counts only lengthen the offset table read)',
                     'table tags read from symbolic bytes are opaque: pairwise distinct and different from "head" (decoding never raises: ASCII failure falls back to bytes, Tag() decodes latin-1)'],
        quick=[dict(L=L, fn=0) for L in (4, 11, 12, 15, 16, 20, 28, 44)] + [dict(L=28, fn=1)],
        thorough=[dict(L=L, fn=f) for L in list(range(4, 50)) + [60] for f in (0, 1)],
        max_paths=60000, conc_cap=80, opaque_tags=True)
def ttc_open(L, fn):
    data = build_bytes(L, b'ttcf', 0)
    if L >= 12:
        # numFonts is the uint32 at offset 8
        nf = data[8:12]
        for b in nf[:3]:
            assume(eq(b, 0))
        assume(le(nf[3], 3))

    def run():
        r = SF.SFNTReader(make_file(data), fontNumber=fn)
        tags = list(r.keys())
        if tags:
            r[tags[0]]
    expect_clean(run, 'ttc')


# ------------------------------------------------------------------------------------------ WOFF
class _ZlibStub:
    """environment stub for zlib inside WOFF decoding (symbolic mode only): a compressed payload made of symbolic bytes is
    not a valid zlib stream -> zlib.error, exactly what the C library raises for arbitrary bytes.  Concrete data goes to the
    real zlib."""
    import zlib as _z
    error = _z.error

    @staticmethod
    def decompress(data, *a):
        if isinstance(data, (bytes, bytearray)):
            return _ZlibStub._z.decompress(data, *a)
        raise _ZlibStub._z.error('Error -3 while decompressing data: incorrect header check')

    @staticmethod
    def compress(data, *a):
        return _ZlibStub._z.compress(bytes(data), *a)


@kernel('C20', funcs=F_R + ['ttLib/sfnt.py:WOFFDirectoryEntry.decodeData', 'ttLib/sfnt.py:WOFFFlavorData.__init__'],
        bounds='WOFF: file of concrete length L starting with wOFF + sfnt flavour 0x00010000, table tags concrete, ALL other header and '
               'directory bytes symbolic (length, numTables, totalSfntSize, meta/priv offsets and lengths, entry offset/compLength/'
               'origLength/checksum); part = which block is loaded after the directory: table 0, or the metadata/private blocks',
        assumptions=['a compressed payload of symbolic bytes is not a valid zlib stream (zlib.decompress raises zlib.error); valid streams of '
                     'the wrong length are outside the claim'],
        shims=['SFile', 'struct', 'zlib stub (sys.modules) for symbolic payloads'],
        quick=[dict(L=L, part='table') for L in (8, 43, 44, 63, 64, 70)] + [dict(L=L, part='flavor') for L in (44, 50)],
        thorough=[dict(L=L, part='table') for L in list(range(4, 72))] + [dict(L=L, part='flavor') for L in (44, 45, 48, 50, 64, 70)],
        max_paths=60000, conc_cap=80)
def woff_open(L, part):
    data = build_bytes(L, b'wOFF', 1)
    for j, c in enumerate(b'\x00\x01\x00\x00'):
        if 4 + j < L:
            data[4 + j] = c
    if L >= 44:
        if part == 'table':
            # keep the flavour-data blocks out of this run (they are the subject of part='flavor')
            for i in list(range(28, 32)) + list(range(40, 44)):
                assume(eq(data[i], 0))
        else:
            # no tables: numTables == 0
            assume(eq(data[12], 0))
            assume(eq(data[13], 0))
    saved = sys.modules.get('zlib')
    if symbolic():
        sys.modules['zlib'] = _ZlibStub

    def run():
        r = SF.SFNTReader(make_file(data))
        tags = list(r.keys())
        if tags:
            r[tags[0]]
    try:
        expect_clean(run, 'woff')
    finally:
        if saved is not None:
            sys.modules['zlib'] = saved


# ------------------------------------------------------------------------------------------ undecodable tables are kept verbatim
class _StubReader:
    def __init__(self, tables):
        self.tables = tables
        self.file = None
        self.flavor = None
        self.flavorData = None
        self.sfntVersion = '\x00\x01\x00\x00'

    def keys(self):
        return list(self.tables.keys())

    def __contains__(self, tag):
        return tag in self.tables

    has_key = __contains__

    def __getitem__(self, tag):
        return self.tables[tag]

    def close(self):
        pass


import fontTools.ttLib.tables._m_a_x_p as T_maxp
import fontTools.ttLib.tables._h_e_a_d as T_head
import fontTools.ttLib.tables._h_h_e_a as T_hhea
import fontTools.ttLib.tables._k_e_r_n as T_kern
import fontTools.ttLib.tables._c_m_a_p as T_cmap
import fontTools.ttLib.tables._p_o_s_t as T_post
import fontTools.misc.fixedTools as _FX
import fontTools.misc.roundTools as _RT
shim_all(T_maxp, T_head, T_hhea, T_kern, T_cmap, T_post, DT, _RT)


@kernel('C20', funcs=['ttLib/ttFont.py:TTFont._readTable', 'ttLib/ttFont.py:TTFont.getTableData', 'ttLib/tables/DefaultTable.py:DefaultTable.decompile',
                       'ttLib/tables/DefaultTable.py:DefaultTable.compile', 'ttLib/tables/_m_a_x_p.py:table__m_a_x_p.decompile',
                       'ttLib/tables/_h_e_a_d.py:table__h_e_a_d.decompile', 'ttLib/tables/_h_h_e_a.py:table__h_h_e_a.decompile',
                       'ttLib/tables/_k_e_r_n.py:table__k_e_r_n.decompile', 'ttLib/tables/_c_m_a_p.py:table__c_m_a_p.decompile'],
        bounds='a font opened with ignoreDecompileErrors=True whose table `tag` is n ARBITRARY symbolic bytes (n from the list: every '
               'truncation below and one above the fixed header size): if the decoder raises, the table object is a DefaultTable whose '
               'compile() and TTFont.getTableData() return exactly the input bytes',
        outside=['table payloads longer than the listed sizes (kern payloads of 10-13 bytes have paths that do not end within the 60 s path limit, post payloads of 32-33 bytes reach float() of a symbolic real: measured, left out)', 'OTL/CFF/glyf decoders'],
        quick=[dict(tag='maxp', n=n) for n in (0, 3, 5, 6, 31, 32)] + [dict(tag='head', n=n) for n in (0, 53)]
        + [dict(tag='hhea', n=n) for n in (35, 36)] + [dict(tag='kern', n=n) for n in (0, 3, 4, 9)] + [dict(tag='cmap', n=n) for n in (0, 3, 4, 11, 12)],
        thorough=[dict(tag='maxp', n=n) for n in range(0, 34)] + [dict(tag='head', n=n) for n in (0, 1, 20, 53)]
        + [dict(tag='hhea', n=n) for n in (0, 35, 36, 37)] + [dict(tag='kern', n=n) for n in range(0, 10)] + [dict(tag='cmap', n=n) for n in range(0, 16)]
        + [dict(tag='post', n=n) for n in (0, 31)],
        max_paths=60000, conc_cap=80, collide=True)
def undecodable_table_kept(tag, n):
    data = V.bytes('data', n) if n else b''
    font = TTFont(ignoreDecompileErrors=True, recalcTimestamp=False)
    font.reader = _StubReader({tag: data})
    font._tableCache = None
    try:
        table = font[tag]
    except Exception as e:
        if type(e).__name__ in ('OutOfModel',):
            raise
        ob('no-exception-escapes-with-ignoreDecompileErrors', False)
        observe('escaped', type(e).__name__)
        return
    ob('no-exception-escapes-with-ignoreDecompileErrors', True)
    if type(table) is DT.DefaultTable:
        ob('fallback-compile-verbatim', eq(tobytes(table.compile(font)), tobytes(data)))
        ob('fallback-getTableData-verbatim', eq(tobytes(font.getTableData(tag)), tobytes(data)))
        ob('fallback-has-error-attr', hasattr(table, 'ERROR'))
        ob('second-lookup-returns-the-same-raw-table', font[tag] is table)
    else:
        ob('decoded', True)


# ------------------------------------------------------------------------------------------ failed save leaves the destination untouched
class _Boom(Exception):
    pass


class _FS:
    """file-system stub: records every open() for writing"""

    def __init__(self):
        self.opened = []
        self.files = {}

    def open(self, path, mode='r', *a, **k):
        fs = self

        class _F:
            def __init__(s):
                s.buf = []

            def write(s, d):
                s.buf.append(d)

            def __enter__(s):
                return s

            def __exit__(s, *a):
                fs.files[path] = s.buf
                return False

            def close(s):
                fs.files[path] = s.buf
        if 'w' in mode or 'a' in mode or '+' in mode:
            self.opened.append((path, mode))
        return _F()


@kernel('C20', funcs=['ttLib/ttFont.py:TTFont.save', 'ttLib/ttFont.py:TTFont._save', 'ttLib/ttFont.py:TTFont._writeTable', 'ttLib/sfnt.py:SFNTWriter.__setitem__',
                       'ttLib/sfnt.py:SFNTWriter.close', 'ttLib/ttFont.py:reorderFontTables'],
        bounds='a font of 3 tables with symbolic 4-byte contents whose compile raises when its index equals a SYMBOLIC crash point k in 0..3 '
               '(3 = no failure), saved with the real TTFont.save(path) for reorderTables in {True, False, None}, against a file-system '
               'stub that records every open-for-write: a failed save never opens the destination; a successful one writes a complete '
               'container that the real reader maps back to the table contents',
        shims=['open (file-system stub)', 'BytesIO -> SFile', 'struct'],
        quick=[dict(reorder=r) for r in (True, False, None)], max_paths=20000)
def failed_save_leaves_destination(reorder):
    k = V.int('crash_at', 0, 3)
    contents = [V.bytes('t%d' % i, 4) for i in range(3)]
    tags = ['aaaa', 'bbbb', 'cccc']

    class T(DT.DefaultTable):
        def __init__(s, tag, idx, data):
            DT.DefaultTable.__init__(s, tag)
            s.idx = idx
            s.data = data

        def compile(s, ttFont):
            if bool(eq(k, s.idx)):
                raise _Boom('compile failed')
            return s.data
    font = TTFont(recalcTimestamp=False)
    for i, t in enumerate(tags):
        font[t] = T(t, i, contents[i])
    fs = _FS()
    saved_open = TF.__dict__.get('open')
    TF.open = fs.open
    failed = False
    try:
        try:
            font.save('/dest/font.ttf', reorderTables=reorder)
        except _Boom:
            failed = True
        except TTLibError:
            failed = True
    finally:
        if saved_open is None:
            del TF.open
        else:
            TF.open = saved_open
    if failed:
        ob('destination-not-opened-on-failure', len(fs.opened) == 0)
        return
    ob('opened-once', len(fs.opened) == 1 and fs.opened[0][0] == '/dest/font.ttf')
    written = fs.files.get('/dest/font.ttf', [])
    blob = written[0] if len(written) == 1 else None
    ob('single-write', blob is not None)
    if blob is None:
        return
    r = SF.SFNTReader(make_file(tobytes(blob)))
    ob('all-tables-present', sorted(r.keys()) == tags)
    ob('contents', conj([eq(tobytes(r[t]), tobytes(contents[i])) for i, t in enumerate(tags)]))
