"""selftest: translator validation of the engine itself (run by MANIFEST.setup_cmd, ~10 s).

The proxy values and shims are exercised on SYMBOLIC operands that are pinned to concrete values by constraints, the result is
evaluated under the solver model and compared with what real Python / struct / array compute on those concrete values
(format strings and boundary values are the ones the repository's own tables and tests use).
"""
import sys, struct, array, random, math, os
from fractions import Fraction

sys.path.insert(0, os.path.dirname(os.path.dirname(os.path.abspath(__file__))))
import z3
from sx.sym import Ctx, SInt, SReal, SBool, model_value, OutOfModel
from sx import shims as sh

fails = []
count = [0]


def ctx():
    c = Ctx([], {}, dict(timeout_ms=20000))
    Ctx.cur = c
    return c


def pinned_int(c, name, v, bv=True):
    x = SInt.var(name, v - 5, v + 5, bv) if bv else SInt.var(name, None, None, False)
    c.add(x.e == v)
    return x


def pinned_real(c, name, v):
    x = SReal.var(name)
    v = Fraction(v)
    c.add(x.e == z3.Q(v.numerator, v.denominator))
    return x


def ev(c, v):
    assert c.check() == 'sat'
    return model_value(c.model(), v)


def expect(what, got, want):
    count[0] += 1
    if got != want:
        fails.append('%s: got %r want %r' % (what, got, want))


def test_int_ops(rnd):
    vals = [0, 1, -1, 2, 107, 108, -107, -108, 1131, 1132, 255, 256, 32767, -32768, 65535, 0x20000, 2 ** 31 - 1, -2 ** 31, 2 ** 32 - 1]
    for _ in range(60):
        a, b = rnd.choice(vals), rnd.choice(vals)
        for bv in (True, False):
            c = ctx()
            x, y = pinned_int(c, 'x', a, bv), pinned_int(c, 'y', b, bv)
            ops = [('add', lambda p, q: p + q), ('sub', lambda p, q: p - q), ('mul', lambda p, q: p * q), ('neg', lambda p, q: -p), ('abs', lambda p, q: abs(p))]
            ops += [('floordiv7', lambda p, q: p // 7), ('mod7', lambda p, q: p % 7), ('floordiv256', lambda p, q: p // 256), ('mod256', lambda p, q: p % 256),
                    ('shr3', lambda p, q: p >> 3), ('shl5', lambda p, q: p << 5), ('and', lambda p, q: p & 0xFF), ('mask16', lambda p, q: p & 0xFFFF)]
            if bv:
                ops += [('or', lambda p, q: p | q), ('xor', lambda p, q: p ^ q), ('andxy', lambda p, q: p & q), ('inv', lambda p, q: ~p)]
            for name, f in ops:
                expect('int %s %s(%d,%d)' % ('bv' if bv else 'lia', name, a, b), ev(c, f(x, y)), f(a, b))
            for name, f in [('lt', lambda p, q: p < q), ('le', lambda p, q: p <= q), ('eq', lambda p, q: p == q), ('ne', lambda p, q: p != q)]:
                expect('int cmp %s(%d,%d)' % (name, a, b), ev(c, f(x, y)), f(a, b))
            if b > 0:
                q, r = divmod(x, b)
                expect('divmod(%d,%d)' % (a, b), (ev(c, q), ev(c, r)), divmod(a, b))
    Ctx.cur = None


def test_real_ops(rnd):
    vals = [Fraction(0), Fraction(1, 2), Fraction(-1, 2), Fraction(3, 2), Fraction(5, 2), Fraction(-5, 2), Fraction(7, 3), Fraction(-7, 3), Fraction(16383, 16384), Fraction(100), Fraction(-100)]
    for a in vals:
        for b in vals:
            c = ctx()
            x, y = pinned_real(c, 'x', a), pinned_real(c, 'y', b)
            expect('real add', ev(c, x + y), a + b)
            expect('real mul', ev(c, x * y), a * b)
            expect('real sub', ev(c, x - 0.125), a - Fraction(1, 8))
            if b != 0:
                expect('real div', ev(c, x / y), a / b)
            expect('real floor', ev(c, sh.math_shim.floor(x)), math.floor(a))
            expect('real ceil', ev(c, sh.math_shim.ceil(x)), math.ceil(a))
            expect('real trunc', ev(c, sh.int_shim(x)), int(a))
            expect('real round', ev(c, sh.round_shim(x)), round(a))
            expect('real lt', ev(c, x < y), a < b)
            expect('otRound', ev(c, sh.int_shim(sh.math_shim.floor(x + 0.5))), int(math.floor(a + Fraction(1, 2))))
    Ctx.cur = None


FORMATS = ['>B', '>b', '>H', '>h', '>L', '>l', '>BH', '>HH', '>hh', '>LL', '>BB', '<H', '<l', 'B', '>4sLLL', '>HHHH', '>bb', '>BBB', '>Hh', '>l4s', '>q', '>Q']


def test_struct(rnd):
    for fmt in FORMATS:
        for trial in range(6):
            codes = [ch for ch in fmt if ch.isalpha() and ch != 's']
            vals = []
            c = ctx()
            args = []
            for i, ch in enumerate(ch2 for ch2 in fmt if ch2.isalpha()):
                if ch == 's':
                    args.append(b'tag%d' % (trial % 10))
                    vals.append(b'tag%d' % (trial % 10))
                    continue
                size = struct.calcsize('>' + ch)
                signed = ch.islower()
                lo, hi = (-(1 << (8 * size - 1)), (1 << (8 * size - 1)) - 1) if signed else (0, (1 << (8 * size)) - 1)
                if size == 8:
                    lo, hi = max(lo, -2 ** 61), min(hi, 2 ** 61)
                v = rnd.choice([lo, hi, 0, 1, rnd.randint(lo, hi)]) if trial else (lo if i % 2 else hi)
                vals.append(v)
                args.append(pinned_int(c, 'a%d' % i, v, bv=(trial % 2 == 0)))
            try:
                packed = sh.struct_shim.pack(fmt, *args)
            except OutOfModel as e:
                fails.append('struct.pack %s: %s' % (fmt, e))
                continue
            want = struct.pack(fmt, *vals)
            got = bytes(ev(c, sh.SBytes(packed)))
            expect('struct.pack %s %r' % (fmt, vals), got, want)
            # unpack symbolic bytes pinned to `want`
            bs = [pinned_int(c, 'b%d' % i, b) for i, b in enumerate(want)]
            un = sh.struct_shim.unpack(fmt, sh.SBytes(bs))
            got_un = tuple(bytes(ev(c, sh.SBytes(u))) if isinstance(u, (sh.SBytes, bytes)) else ev(c, u) for u in un)
            expect('struct.unpack %s' % fmt, got_un, struct.unpack(fmt, want))
            # out of range must raise struct.error on the forked path
        Ctx.cur = None
    c = ctx()
    x = pinned_int(c, 'x', 70000)
    try:
        sh.struct_shim.pack('>H', x)
        fails.append('struct.pack >H 70000 did not raise')
    except struct.error:
        count[0] += 1
    Ctx.cur = None


def test_array(rnd):
    for code in 'bBhHiIlL':
        real = array.array(code)
        n = real.itemsize
        data = bytes(rnd.randrange(256) for _ in range(n * 3))
        real.frombytes(data)
        c = ctx()
        bs = [pinned_int(c, 'b%d' % i, b) for i, b in enumerate(data)]
        a = sh.SArray(code)
        a.frombytes(sh.SBytes(bs))
        expect('array %s frombytes' % code, ev(c, a), list(real))
        a.byteswap()
        real.byteswap()
        expect('array %s byteswap' % code, ev(c, a), list(real))
        expect('array %s tobytes' % code, bytes(ev(c, sh.SBytes(a.tobytes()))), real.tobytes())
        Ctx.cur = None


def test_file():
    from io import BytesIO
    data = bytes(range(40))
    c = ctx()
    f = sh.SFile(sh.SBytes([pinned_int(c, 'b%d' % i, b) for i, b in enumerate(data)]))
    g = BytesIO(data)
    for op in [('read', 4), ('seek', 10), ('read', 8), ('seek', 38), ('read', 8), ('seek', 50), ('read', 3), ('seek', 0), ('read', -1)]:
        if op[0] == 'seek':
            f.seek(op[1]); g.seek(op[1])
        else:
            expect('file read %r' % (op,), bytes(ev(c, sh.SBytes(f.read(op[1])))), g.read(op[1]))
    w = sh.SFile()
    h = BytesIO()
    for s in (w, h):
        s.write(b'abcd'); s.seek(8); s.write(b'zz'); s.seek(2); s.write(b'XY')
    expect('file write', bytes(w.getvalue()), h.getvalue())
    Ctx.cur = None


def test_range():
    c = ctx()
    n = pinned_int(c, 'n', 5)
    expect('srange', [ev(c, i) if not isinstance(i, int) else i for i in sh.srange(n)], list(range(5)))
    expect('srange2', [ev(c, i) if not isinstance(i, int) else i for i in sh.srange(2, n)], list(range(2, 5)))
    Ctx.cur = None


def main():
    rnd = random.Random(20260923)
    test_int_ops(rnd)
    test_real_ops(rnd)
    test_struct(rnd)
    test_array(rnd)
    test_file()
    test_range()
    if fails:
        for f in fails[:20]:
            print('SELFTEST FAIL', f)
        print('selftest: %d checks, %d failures' % (count[0], len(fails)))
        return 1
    print('selftest: %d shim/proxy checks against real Python/struct/array passed' % count[0])
    return 0


if __name__ == '__main__':
    sys.exit(main())
